(* C13 wave 4: model side of harness/src/fam_date.rs (the dt.sweep_* kinds are implementation-only) *)
open Glue

let show_raw (r : Date.rawdate) =
  Printf.sprintf "ok %s %s %s %s" (string_of_z r.Date.ry) (string_of_z (Date.raw_month r))
    (string_of_z (Date.raw_day r)) (string_of_z (Date.raw_hour r))
let show_oraw o = show_outcome (function None -> "none" | Some r -> show_raw r) o

let zs = z_of_string

(* the typed constructor: Ok (Some r) / Ok None / crash *)
let make which y m d h : Date.rawdate option Bytes.outcome =
  match which with
  | "date" -> Date.date_from_ymd_opt (zs y) (zs m) (zs d)
  | "dh" -> Date.datehour_from_ymdh_opt (zs y) (zs m) (zs d) (zs h)
  | "ud" -> Bytes.Ok (Date.uniform_from_ymd_opt (zs y) (zs m) (zs d))
  | _ -> Bytes.Ok (Date.raw_from_ymdh_opt (zs y) (zs m) (zs d) (zs h))

let with_made which y m d h (f : Date.rawdate -> string) : string =
  match make which y m d h with
  | Bytes.Ok (Some r) -> f r
  | Bytes.Ok None -> "invalid"
  | o -> show_outcome (fun _ -> "") o

let cmp_line (a : Date.rawdate) (b : Date.rawdate) : string =
  let c = Date.raw_cmp a b in
  let name = match c with Datatypes.Lt -> "lt" | Datatypes.Eq -> "eq" | Datatypes.Gt -> "gt" in
  let eq = DateExt.raw_eqb a b in
  let bit x = if x then "1" else "0" in
  let lt = (c = Datatypes.Lt) and gt = (c = Datatypes.Gt) in
  Printf.sprintf "%s %s %s %s%s%s%s%s %s" name name (bit eq)
    (bit lt) (bit (not gt)) (bit gt) (bit (not lt)) (bit (not eq)) (bit eq)

let () =
  register "raw.frombin" (function [s] -> show_oraw (DateExt.raw_from_binary (zs s)) | _ -> "BADCASE");
  register "dt.rawf" (function [y; m; d; h] ->
      (match Date.raw_from_ymdh_opt (zs y) (zs m) (zs d) (zs h) with
       | None -> "none"
       | Some r -> show_raw r ^ (if Date.raw_has_hour r then " 1" else " 0")) | _ -> "BADCASE");
  register "dt.ctorp" (function [which; y; m; d; h] ->
      let o = match which with
        | "date" -> DateExt.date_from_ymd (zs y) (zs m) (zs d)
        | "dh" -> DateExt.datehour_from_ymdh (zs y) (zs m) (zs d) (zs h)
        | "ud" -> DateExt.uniform_from_ymd (zs y) (zs m) (zs d)
        | _ -> DateExt.raw_from_ymdh (zs y) (zs m) (zs d) (zs h) in
      show_outcome show_raw o | _ -> "BADCASE");
  register "dt.cmp" (function [which; y; m; d; h; y2; m2; d2; h2] ->
      (match make which y m d h, make which y2 m2 d2 h2 with
       | Bytes.Ok (Some a), Bytes.Ok (Some b) -> cmp_line a b
       | Bytes.Ok _, Bytes.Ok _ -> "invalid"
       | _ -> crash_tag) | _ -> "BADCASE");
  register "dt.fmtx" (function [which; y; m; d; h] ->
      with_made which y m d h (fun r ->
        let short = hex_of_bytes (Date.game_fmt false r) and wide = hex_of_bytes (Date.game_fmt true r)
        and iso = hex_of_bytes (Date.iso_fmt r) in
        Printf.sprintf "%s %s %s %s %s" short wide iso (if which = "ud" then wide else short) iso) | _ -> "BADCASE");
  register "dt.fromstr" (function [which; hx] ->
      let s = bytes_of_hex hx in
      show_oraw (match which with
        | "date" -> DateExt.date_from_str s
        | "dh" -> DateExt.datehour_from_str s
        | "ud" -> DateExt.uniform_from_str s
        | _ -> DateExt.raw_from_str s) | _ -> "BADCASE");
  register "dt.de" (function [which; mode; arg] ->
      let i = match mode with
        | "i32" -> DateExt.DeI32 (zs arg)
        | "str" | "bstr" | "string" -> DateExt.DeStr (bytes_of_hex arg)
        | _ -> DateExt.DeOther in
      let o = match which with
        | "date" -> DateExt.date_visit i
        | "dh" -> DateExt.datehour_visit i
        | _ -> DateExt.uniform_visit i in
      show_outcome (function None -> "err" | Some r -> show_raw r) o | _ -> "BADCASE");
  register "dt.ser" (function [which; y; m; d; h] ->
      with_made which y m d h (fun r -> hex_of_bytes (DateExt.date_ser_json r)) | _ -> "BADCASE");
  register "dt.arith" (function [y; m; d; y2; m2; d2] ->
      (match make "date" y m d "0", make "date" y2 m2 d2 "0" with
       | Bytes.Ok (Some a), Bytes.Ok (Some b) ->
         (match Date.days_until a b, Date.days_until b a with
          | Bytes.Ok n, Bytes.Ok back ->
            (match Date.add_days a n with
             | Bytes.Ok c ->
               Printf.sprintf "%s %s %s %s" (string_of_z n) (string_of_z back) (show_raw c)
                 (match Date.raw_cmp a b with Datatypes.Lt -> "lt" | Datatypes.Eq -> "eq" | Datatypes.Gt -> "gt")
             | _ -> crash_tag)
          | _ -> crash_tag)
       | Bytes.Ok _, Bytes.Ok _ -> "invalid"
       | _ -> crash_tag) | _ -> "BADCASE")
