(* C18, proc-macro family (w_derive, wave 5): the visitor of a derived struct computed from the RAW syntax of
   its fields (every #[jomini(..)] attribute list separately, literal kinds, type path segments) by
   DeriveCode.visit_raw, instantiated with DeriveCode.code_facts = the structural facts that the translator
   reads off jomini_derive/src/lib.rs (the constants dv_... of Tables).
   dc.text.m / dc.bin.m : <implementation arguments...> <raw> <kvs>
     raw   = field ; field ; ...      field = name:lists:path:tdef:fns
             name hex; lists = '-' (no jomini attribute) or list|list|..; list = '_' (empty) or arg,arg,..
             arg = w<hexname> | s<hexname>.<hexstr> | i<hexname>.<decimal> | o<hexname> (other literal) | l<hexname> | x
             path = hexseg,hexseg,.. or '-'; tdef = hex of the value string or '-'; fns = hexname.hexvalue,.. or '-'
     kvs   = as for dw.*.m, plus N<method>=<res> : a key that reaches __FieldVisitor through visit_<method>
             (integer key tokens in binary: i32 u32 u64 i64)
   output = (struct ..) | ERR:<class> | REJECTED | UNRESOLVED | BRIDGE-DIFF (visit_raw differs from
            DeriveMacro.visit_attrs on DeriveCode.attrs_of_raw although every key is a string / token id) *)
open Glue
open Fam_derive

let cut c s = let i = Stdlib.String.index s c in (Stdlib.String.sub s 0 i, Stdlib.String.sub s (i + 1) (Stdlib.String.length s - i - 1))

let parse_arg (s : string) : DeriveCode.arg =
  let body = tl1 s in
  match s.[0] with
  | 'w' -> DeriveCode.AWord (bytes_of_hex body)
  | 's' -> let (n, v) = cut '.' body in DeriveCode.ANameValue (bytes_of_hex n, DeriveCode.LStr (bytes_of_hex v))
  | 'i' -> let (n, v) = cut '.' body in DeriveCode.ANameValue (bytes_of_hex n, DeriveCode.LInt (n_of_zt (Z.of_string v)))
  | 'o' -> DeriveCode.ANameValue (bytes_of_hex body, DeriveCode.LOther)
  | 'l' -> DeriveCode.AList (bytes_of_hex body)
  | 'x' -> DeriveCode.ALit
  | _ -> failwith "bad arg"

let parse_raw (s : string) : string * string DeriveCode.raw_field =
  match Stdlib.String.split_on_char ':' s with
  | [name; lists; path; tdef; fns] ->
    let v h = if h = "-" then "" else str_of_hex h in
    let ls = if lists = "-" then [] else
        Stdlib.List.map (fun l -> if l = "_" then [] else Stdlib.List.map parse_arg (Stdlib.String.split_on_char ',' l))
          (Stdlib.String.split_on_char '|' lists) in
    let tab = Stdlib.List.map (fun e -> let (n, x) = cut '.' e in (bytes_of_hex n, v x)) (split ',' fns) in
    (name, { DeriveCode.r_name = bytes_of_hex name; DeriveCode.r_attrs = ls;
             DeriveCode.r_type_path = Stdlib.List.map bytes_of_hex (split ',' path);
             DeriveCode.r_type_default = v tdef;
             DeriveCode.r_fn_value = (fun f -> try Stdlib.List.assoc f tab with Not_found -> "(fn?)") })
  | _ -> failwith "bad raw"

let visit_of = function
  | "i32" -> Tables.DvVisitI32 | "u32" -> Tables.DvVisitU32 | "u64" -> Tables.DvVisitU64 | "i64" -> Tables.DvVisitI64
  | "u8" -> Tables.DvVisitU8 | "i8" -> Tables.DvVisitI8 | "i16" -> Tables.DvVisitI16 | "bytes" -> Tables.DvVisitBytes
  | _ -> Tables.DvVisitOther

let wire_kv tokened (s : string) : DeriveCode.wire_key * string Bytes.outcome =
  let i = Stdlib.String.index s '=' in
  let k = Stdlib.String.sub s 1 (i - 1) and r = Stdlib.String.sub s (i + 1) (Stdlib.String.length s - i - 1) in
  let key =
    if s.[0] = 'S' then DeriveCode.WStr (bytes_of_hex k)
    else if s.[0] = 'N' then DeriveCode.WVia (visit_of k)
    else begin
      let j = Stdlib.String.index k '/' in
      let id = Stdlib.String.sub k 0 j and nm = Stdlib.String.sub k (j + 1) (Stdlib.String.length k - j - 1) in
      if tokened then DeriveCode.WU16 (n_of_int (int_of_string ("0x" ^ id)))
      else if nm = "?" then raise Unresolved
      else DeriveCode.WStr (bytes_of_hex nm)
    end in
  let res = if r.[0] = 'o' then Bytes.Ok (str_of_hex (tl1 r)) else Bytes.Err (class_code (tl1 r)) in
  (key, res)

let run raw kvs =
  let sp = Stdlib.List.map parse_raw (split ';' raw) in
  let tbl = Stdlib.List.map snd sp in
  let cf = DeriveCode.code_facts in
  if not (DeriveCode.macro_accepts_raw cf tbl) then "REJECTED"
  else
    try
      let tokened = (DeriveCode.key_hint cf tbl = Tables.DvHintU16) in
      let kv = Stdlib.List.map (wire_kv tokened) (split ';' kvs) in
      let out = show sp (DeriveCode.visit_raw cf tbl kv) in
      (* the bridge theorem C18_code_visit_raw_is_visit_attrs, run (it is about the expected facts: when lib.rs changed a
         fact the model follows the code and the hand-written DeriveMacro model does not) *)
      let plain = Stdlib.List.for_all (fun (k, _) -> match k with DeriveCode.WVia _ -> false | _ -> true) kv in
      if plain && cf = DeriveCode.expected_facts then begin
        let kv' = Stdlib.List.map (fun (k, r) -> ((match k with DeriveCode.WStr s -> Derive.KStr s | DeriveCode.WU16 t -> Derive.KTok t | _ -> assert false), r)) kv in
        let out' = show sp (DeriveMacro.visit_attrs (Stdlib.List.map DeriveCode.attrs_of_raw tbl) kv') in
        if out' <> out then "BRIDGE-DIFF" else out
      end else out
    with Unresolved -> "UNRESOLVED"

let () =
  register "dc.text.m" (function [_; _; _; _; raw; kvs] -> run raw kvs | _ -> "BADCASE");
  register "dc.bin.m" (function [_; _; _; _; _; _; raw; kvs] -> run raw kvs | _ -> "BADCASE")
