(* C07 wave 4: lists of calls (next / read / read_bytes, position after each) on one text reader *)
open Glue

let show_tok = Fam_textreader.show_tok
let parse_sched = Fam_textreader.parse_sched

let parse_ops (n : int) (s : string) : TextOps.rop list =
  let one o =
    if o = "" || o = "-" then []
    else if o = "n" then [TextOps.ONext]
    else if o = "r" then [TextOps.ORead]
    else if o = "N" then Stdlib.List.init (n + 2) (fun _ -> TextOps.ONext)
    else if o = "R" then Stdlib.List.init (n + 2) (fun _ -> TextOps.ORead)
    else if o.[0] = 'b' then [TextOps.OBytes (nat_of_int (int_of_string (Stdlib.String.sub o 1 (Stdlib.String.length o - 1))))]
    else failwith "bad op" in
  Stdlib.List.concat_map one (Stdlib.String.split_on_char ',' s)

let show_item (i : TextOps.oitem) : string =
  match i with
  | TextOps.XTok t -> show_tok t
  | TextOps.XEnd -> "END"
  | TextOps.XErr e -> "ERR:" ^ string_of_n e
  | TextOps.XBytes b -> "B:" ^ hex_of_bytes b
  | TextOps.XCrash _ -> crash_tag

let show_ops (wp : bool) ((l, r) : (TextOps.oitem * Datatypes.nat) list * TextReader.reader) : string =
  let items = Stdlib.List.map (fun (i, p) -> (show_item i, if wp then show_item i ^ "@" ^ string_of_int (int_of_nat p) else show_item i)) l in
  if Stdlib.List.exists (fun (a, _) -> a = crash_tag) items then crash_tag
  else Stdlib.String.concat " " (Stdlib.List.map snd items @
                                 ["P" ^ string_of_int (int_of_nat (TextReader.reader_position r));
                                  "L" ^ string_of_int (int_of_nat (TextOps.parts_len r));
                                  "D" ^ string_of_int (int_of_nat (TextOps.parts_delivered r))])

let run wp mode cap sched h ops =
  let input = bytes_of_hex h in
  let n = Stdlib.List.length input in
  let ops = parse_ops n ops in
  if mode = "slice" then show_ops wp (TextOps.slice_ops input ops)
  else
    let cap = if mode = "new" then 32768 else int_of_string cap in
    show_ops wp (TextOps.stream_ops (nat_of_int cap) (parse_sched sched) input ops)

let () =
  register "tr.ops" (function [mode; cap; sched; h; ops] -> run false mode cap sched h ops | _ -> "BADCASE");
  register "tr.opsp" (function [mode; cap; sched; h; ops] -> run true mode cap sched h ops | _ -> "BADCASE");
  register "tr.opsrecp" (function [cap; sched; h; ops; _; _; _] -> run true "len" cap sched h ops | _ -> "BADCASE");
  (* the model has no storage behind the window: what a previous reader left in the buffer cannot matter *)
  register "tr.opsrec" (function [cap; sched; h; ops; _; _; _] -> run false "len" cap sched h ops | _ -> "BADCASE")
