(* streaming text reader family *)
open Glue

let show_tok (t : TextReader.rtok) : string =
  match t with
  | TextReader.ROpen -> "O"
  | TextReader.RClose -> "C"
  | TextReader.ROp o -> "OP:" ^ string_of_n (TextTok.op_code o)
  | TextReader.RUnq s -> "U:" ^ hex_of_bytes s
  | TextReader.RQuo s -> "Q:" ^ hex_of_bytes s

let parse_sched (s : string) : BufWin.event list =
  if s = "-" || s = "" then []
  else Stdlib.List.map (fun x -> if x = "F" then BufWin.Fail else BufWin.Data (n_of_string x)) (Stdlib.String.split_on_char ',' s)

let show_run ((l, pos) : TextReader.rout list * Datatypes.nat) : string =
  let items = Stdlib.List.map (function
      | TextReader.OTok t -> show_tok t
      | TextReader.OEnd -> "END"
      | TextReader.OErr e -> "ERR:" ^ string_of_n e
      | TextReader.OCrash s -> crash_tag) l in
  if Stdlib.List.mem crash_tag items then crash_tag
  else Stdlib.String.concat " " (items @ ["@" ^ string_of_int (int_of_nat pos)])

let mk_reader cap sched input : TextReader.reader =
  if cap = "slice" then TextReader.reader_from_slice input
  else TextReader.reader_new (nat_of_int (int_of_string cap)) input (parse_sched sched)

let fuel_for input sched = nat_of_int (4 * (Stdlib.List.length input + Stdlib.String.length sched) + 64)

(* read n tokens; None if fewer are available *)
let rec read_n fuel (r : TextReader.reader) (n : int) : TextReader.reader option =
  if n = 0 then Some r
  else match TextReader.next_opt fuel r with
    | TextReader.NTok (_, r') -> read_n fuel r' (n - 1)
    | _ -> None

let drain fuel input r =
  TextReader.run_next (nat_of_int (Stdlib.List.length input + 2)) fuel r

let () =
  (* the exact capacity requirement proved tight in Props/C07.v (C07_stream_eq_slice / C07_stream_full) *)
  register "tr.need" (function [h] -> string_of_int (int_of_nat (TextRef.need (bytes_of_hex h))) | _ -> "BADCASE");
  register "tr.slice" (function [h] -> show_run (TextReader.run_slice (bytes_of_hex h)) | _ -> "BADCASE");
  register "tr.subslice" (function [h; n] ->
      let d = bytes_of_hex h in
      show_run (TextReader.run_slice (List.firstn (nat_of_int (int_of_string n)) d)) | _ -> "BADCASE");
  register "tr.stream" (function
      | cap :: sched :: h :: _ ->
        show_run (TextReader.run_stream (nat_of_int (int_of_string cap)) (parse_sched sched) (bytes_of_hex h))
      | _ -> "BADCASE");
  register "tr.retry" (function
      | [cap; sched; h] ->
        let input = bytes_of_hex h in
        let n = Stdlib.List.length input in
        let fuel = fuel_for input sched in
        let r0 = mk_reader cap sched input in
        let rec go r steps errs acc =
          if steps > 2 * n + 40 then (Stdlib.List.rev ("RUNAWAY" :: acc), r)
          else match TextReader.next_opt fuel r with
            | TextReader.NTok (t, r') -> go r' (steps + 1) errs (show_tok t :: acc)
            | TextReader.NEnd r' -> (Stdlib.List.rev ("END" :: acc), r')
            | TextReader.NErr (e, r') ->
              let acc = ("ERR:" ^ string_of_n e) :: acc in
              if errs + 1 > 6 || string_of_n e <> "100" then (Stdlib.List.rev acc, r') else go r' (steps + 1) (errs + 1) acc
            | TextReader.NCrash _ -> ([crash_tag], r) in
        let (items, r) = go r0 1 0 [] in
        if Stdlib.List.mem crash_tag items then crash_tag
        else Stdlib.String.concat " " (items @ ["@" ^ string_of_int (int_of_nat (TextReader.reader_position r));
                                                 "D" ^ string_of_int (int_of_nat r.TextReader.rrd.BufWin.delivered)])
      | _ -> "BADCASE");
  let skip kind = (function
      | [cap; sched; h; ntok] ->
        let input = bytes_of_hex h in
        let fuel = fuel_for input sched in
        let r = mk_reader cap sched input in
        (match read_n fuel r (int_of_string ntok) with
         | None -> "SHORT"
         | Some r ->
           let res = if kind = "tr.skip" then TextReader.skip_container fuel r else TextReader.skip_unquoted_value fuel r in
           (match res with
            | Bytes.Ok r' ->
              "SKIP@" ^ string_of_int (int_of_nat (TextReader.reader_position r')) ^ " " ^ show_run (drain fuel input r')
            | Bytes.Err e -> "ERR:" ^ string_of_n e
            | _ -> crash_tag))
      | _ -> "BADCASE") in
  register "tr.skip" (skip "tr.skip");
  register "tr.skipuv" (skip "tr.skipuv");
  (* >>> s_c09 (wave 6): a history of calls on one reader: n<k> (k tokens), k (skip_container), u (skip_unquoted_value) *)
  register "tr.skipn" (function
      | [cap; sched; h; ops] ->
        let input = bytes_of_hex h in
        let fuel = fuel_for input sched in
        let r0 = mk_reader cap sched input in
        let rec go r ops acc =
          match ops with
          | [] -> Stdlib.String.concat " " (Stdlib.List.rev (show_run (drain fuel input r) :: acc))
          | op :: rest ->
            if op = "" || op = "-" then go r rest acc
            else if op.[0] = 'n' then
              (match read_n fuel r (int_of_string (Stdlib.String.sub op 1 (Stdlib.String.length op - 1))) with
               | None -> Stdlib.String.concat " " (Stdlib.List.rev ("SHORT" :: acc))
               | Some r' -> go r' rest acc)
            else
              (match (if op = "k" then TextReader.skip_container fuel r else TextReader.skip_unquoted_value fuel r) with
               | Bytes.Ok r' -> go r' rest (("SKIP@" ^ string_of_int (int_of_nat (TextReader.reader_position r'))) :: acc)
               | Bytes.Err e -> Stdlib.String.concat " " (Stdlib.List.rev (("ERR:" ^ string_of_n e) :: acc))
               | _ -> crash_tag) in
        let s = go r0 (Stdlib.String.split_on_char ',' ops) [] in
        (* a crash while draining shows as the crash tag inside the run *)
        if Stdlib.String.length s >= Stdlib.String.length crash_tag
           && Stdlib.String.sub s (Stdlib.String.length s - Stdlib.String.length crash_tag) (Stdlib.String.length crash_tag) = crash_tag
        then crash_tag else s
      | _ -> "BADCASE");
  (* <<< s_c09 *)
  register "tr.readbytes" (function
      | [cap; sched; h; ntok; nb] ->
        let input = bytes_of_hex h in
        let fuel = fuel_for input sched in
        let r = mk_reader cap sched input in
        let rec skipn_tok r n = if n = 0 then r else
            (match TextReader.next_opt fuel r with
             | TextReader.NTok (_, r') | TextReader.NEnd r' | TextReader.NErr (_, r') -> skipn_tok r' (n - 1)
             | TextReader.NCrash _ -> r) in
        let r = skipn_tok r (int_of_string ntok) in
        (match TextReader.read_bytes fuel r (nat_of_int (int_of_string nb)) with
         | Bytes.Ok (b, r') -> "B:" ^ hex_of_bytes b ^ " " ^ show_run (drain fuel input r')
         | Bytes.Err e -> "ERR:" ^ string_of_n e
         | _ -> crash_tag)
      | _ -> "BADCASE")
