(* DOM / JSON family (C17, C16): same case kinds and canonical output as harness/src/fam_dom.rs,
   computed by the extracted models TapeWf / Dom / Json over the tape string of the case. *)
open Glue
open Ttglue

let sj (l : string list) = Stdlib.String.concat ";" l
let sj_comma (l : string list) = Stdlib.String.concat "," l
let si (n : Datatypes.nat) = string_of_int (int_of_nat n)

let op_str (o : TextTok.operator option) =
  match o with Some o -> string_of_n (TextTok.op_code o) | None -> "-"

(* model outcomes: crash -> exception caught per case *)
exception Crash
let ok (o : 'a Bytes.outcome) : 'a =
  match o with Bytes.Ok a -> a | _ -> raise Crash
(* reader API results: Ok / Err (refused) / crash *)
let api (o : 'a Bytes.outcome) : 'a option =
  match o with Bytes.Ok a -> Some a | Bytes.Err _ -> None | _ -> raise Crash

let dbg = ref false

let str_of dec t vi = match api (Dom.read_str dec t vi) with Some s -> hex_of_bytes s | None -> "E"

let array_view dec (t : TextTok.ttok list) (r : Dom.areader) : string =
  let v = ok (Dom.array_view t r) in
  let n = int_of_nat v.Dom.av_len in
  Printf.sprintf "A{n=%d,v=[%s],vs=[%s],tl=%d,e=%d,vh=%d/%d}" n
    (sj (Stdlib.List.map si v.Dom.av_values)) (sj (Stdlib.List.map (str_of dec t) v.Dom.av_values)) (int_of_nat v.Dom.av_tokens)
    (if n = 0 then 1 else 0) n n

let object_view (dec : BinNums.coq_N list -> BinNums.coq_N list) (t : TextTok.ttok list) (r : Dom.oreader) : string =
  let v = ok (Dom.object_view !dbg t r) in
  let fs = Stdlib.List.map (fun (f : Dom.field) ->
      Printf.sprintf "%s/%s/%s" (string_of_tok f.Dom.f_key) (op_str f.Dom.f_op) (si f.Dom.f_val)) v.Dom.ov_fields in
  let ks = Stdlib.List.map (fun (f : Dom.field) -> hex_of_bytes (dec (Dom.tok_bytes f.Dom.f_key))) v.Dom.ov_fields in
  let vs = Stdlib.List.map (fun (f : Dom.field) -> str_of dec t f.Dom.f_val) v.Dom.ov_fields in
  let remv = sj (Stdlib.List.map si v.Dom.ov_rem) in
  let ng = Stdlib.List.length v.Dom.ov_groups in
  let gs = Stdlib.List.map (fun (g : Dom.group) ->
      let n = Stdlib.List.length g.Dom.g_vals in
      Printf.sprintf "%s%s%d(%s)" (string_of_tok g.Dom.g_key) (if n = 1 then "1" else "m") n
        (Stdlib.String.concat "+" (Stdlib.List.map (fun (op, vi) -> op_str op ^ "/" ^ si vi) g.Dom.g_vals))) v.Dom.ov_groups in
  (* key_indices.len() after each next: one entry leaves the map per group *)
  let gh = int_of_nat v.Dom.ov_ghint in
  let ghs = Stdlib.List.mapi (fun k _ -> string_of_int (gh - k - 1)) v.Dom.ov_groups in
  ignore ng;
  Printf.sprintf "O{fl=%d,h=%d,f=[%s],rem=[%s]/%d/%d,g=[%s],gh=%d:%s,grem=[%s],tl=%d,ks=[%s],vs=[%s]}"
    (int_of_nat v.Dom.ov_fields_len) (int_of_nat v.Dom.ov_hint) (sj fs) remv
    (int_of_nat v.Dom.ov_rem_len) (int_of_nat v.Dom.ov_rem_tokens) (sj gs) gh
    (Stdlib.String.concat "," ghs) remv (int_of_nat v.Dom.ov_tokens) (sj ks) (sj vs)

let node_view (utf8 : bool) (t : TextTok.ttok list) (idx : string) : string =
  let dec = Json.decode_of utf8 in
  if idx = "top" then object_view dec t (Dom.top_reader t)
  else begin
    let v = nat_of_int (int_of_string idx) in
    let tok = ok (Dom.value_token t v) in
    let tl = ok (Dom.value_tokens_len t v) in
    let sc = match api (Dom.read_scalar t v) with Some s -> hex_of_bytes s | None -> "E" in
    let st = match api (Dom.read_str dec t v) with Some s -> hex_of_bytes s | None -> "E" in
    let ob = match api (Dom.read_object t v) with Some r -> object_view dec t r | None -> "E" in
    let ar = match api (Dom.read_array t v) with Some r -> array_view dec t r | None -> "E" in
    Printf.sprintf "tok=%s tl=%d sc=%s str=%s obj=%s arr=%s" (string_of_tok tok) (int_of_nat tl) sc st ob ar
  end

(* canonical JSON tree: n t f i<dec> d<16 hex> s<hex> [..] {s<hex>:..} *)
let rec show_json (b : Stdlib.Buffer.t) (j : Json.json) : unit =
  let add = Stdlib.Buffer.add_string b in
  match j with
  | Json.JNull -> add "n"
  | Json.JBool true -> add "t"
  | Json.JBool false -> add "f"
  | Json.JI64 z -> add ("i" ^ string_of_z z)
  | Json.JU64 n -> add ("i" ^ string_of_n n)
  | Json.JF64 bits -> add ("d" ^ Z.format "%016x" (zt_of_n bits))
  | Json.JStr s -> add ("s" ^ hex_of_bytes s)
  | Json.JArr l ->
    add "[";
    Stdlib.List.iteri (fun k x -> if k > 0 then add ","; show_json b x) l;
    add "]"
  | Json.JObj l ->
    add "{";
    Stdlib.List.iteri (fun k (key, x) -> if k > 0 then add ","; add ("s" ^ hex_of_bytes key ^ ":"); show_json b x) l;
    add "}"

(* the model's tree for one entry point (None: the reader refuses the token) *)
let json_tree (utf8 : bool) (t : TextTok.ttok list) idx entry pretty dup narrow : Json.json option =
  let dec = Json.decode_of utf8 in
  let o = { Json.pretty = (pretty = "1");
            Json.duplicate_keys = (match dup with "g" -> Json.Group | "p" -> Json.Preserve | _ -> Json.KeyValuePairs);
            Json.type_narrowing = (match narrow with "a" -> Json.NarrowAll | "u" -> Json.NarrowUnquoted | _ -> Json.NarrowNone) } in
  let res =
    if idx = "top" then Some (ok (Json.json_object dec !dbg o t (Dom.top_reader t)))
    else begin
      let v = nat_of_int (int_of_string idx) in
      match entry with
      | "v" -> Some (ok (Json.json_value dec !dbg o t v))
      | "o" -> (match api (Dom.read_object t v) with Some r -> Some (ok (Json.json_object dec !dbg o t r)) | None -> None)
      | _ -> (match api (Dom.read_array t v) with Some r -> Some (ok (Json.json_array dec !dbg o t r)) | None -> None)
    end in
  res

let json_ser (utf8 : bool) (t : TextTok.ttok list) idx entry pretty dup narrow : string =
  match json_tree utf8 t idx entry pretty dup narrow with
  | None -> "E"
  | Some j -> let b = Stdlib.Buffer.create 256 in show_json b j; Stdlib.Buffer.contents b

let guard f = try f () with Crash -> crash_tag

(* >>> w_json (wave 5): the document walk JsonDoc.doc_eatoms (from the tape alone) in the format of
   the harness' atoms_of_canonical, and the array of a node through the declarative window reading *)
let narrowing_of narrow = match narrow with "a" -> Json.NarrowAll | "u" -> Json.NarrowUnquoted | _ -> Json.NarrowNone
let dup_of dup = match dup with "g" -> Json.Group | "p" -> Json.Preserve | _ -> Json.KeyValuePairs

let json_atoms (utf8 : bool) (t : TextTok.ttok list) dup narrow : string =
  let dec = Json.decode_of utf8 in
  let l = JsonDoc.doc_eatoms dec (narrowing_of narrow) (dup = "k") t in
  sj_comma (Stdlib.List.map (fun a ->
      match a with
      | JsonDoc.EK k -> "K" ^ hex_of_bytes k
      | JsonDoc.EV j -> let b = Stdlib.Buffer.create 32 in show_json b j; "V" ^ Stdlib.Buffer.contents b) l)

let json_aspec (utf8 : bool) (t : TextTok.ttok list) idx entry pretty dup narrow : string =
  let dec = Json.decode_of utf8 in
  let o = { Json.pretty = (pretty = "1"); Json.duplicate_keys = dup_of dup; Json.type_narrowing = narrowing_of narrow } in
  let v = nat_of_int (int_of_string idx) in
  if entry <> "a" then "BADCASE"
  else match api (Dom.read_array t v) with
    | None -> "E"
    | Some r ->
      let l = ok (Dom.values_all t r) in
      let recf = Json.ser_value dec !dbg o t (Json.ser_fuel t) in
      let js = Stdlib.List.map (fun e -> ok (JsonDoc.elem_tree dec t recf e)) (JsonDoc.win_read t l) in
      let arr = Json.JArr js in
      let j = (match dup with "k" -> Json.JObj [(Json.s_type, Json.JStr Json.s_array); (Json.s_val, arr)] | _ -> arr) in
      let b = Stdlib.Buffer.create 256 in show_json b j; Stdlib.Buffer.contents b
(* <<< *)

let () =
  register "dom.wf" (function [_; tape] -> string_of_int (int_of_nat (TapeWf.tape_wf_code (tape_of_string tape))) | _ -> "BADCASE");
  register "dom.node" (function [_; tape; enc; idx] -> guard (fun () -> node_view (enc = "u") (tape_of_string tape) idx) | _ -> "BADCASE");
  register "json.ser" (function [_; tape; enc; idx; entry; pretty; dup; narrow] ->
      guard (fun () -> json_ser (enc = "u") (tape_of_string tape) idx entry pretty dup narrow) | _ -> "BADCASE");
  register "json.atoms" (function [_; tape; enc; dup; narrow] ->
      guard (fun () -> json_atoms (enc = "u") (tape_of_string tape) dup narrow) | _ -> "BADCASE");
  register "json.aspec" (function [_; tape; enc; idx; entry; pretty; dup; narrow] ->
      guard (fun () -> json_aspec (enc = "u") (tape_of_string tape) idx entry pretty dup narrow) | _ -> "BADCASE");
  register "json.f64" (function [h] -> show_outcome (fun bits -> Z.format "%016x" (zt_of_n bits)) (Json.to_f64 (bytes_of_hex h)) | _ -> "BADCASE")
