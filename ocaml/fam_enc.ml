(* family enc (C12, wave 4): the routes to the decoders beyond the inherent static functions.
   The route (trait method, &T, Box<T>, dyn, new/default), the neighbours of the slice and the way a
   document reaches the decoder are not part of the model: the decoders are functions of the byte
   string alone, which is exactly what these kinds check on the implementation. *)
open Glue

let show_cow (c : Utf8.cow) : string =
  (if Utf8.is_borrowed c then "B:" else "O:") ^ hex_of_bytes (Utf8.cow_bytes c)

(* a borrowed result is the trimmed prefix of the slice handed in: offset 0, its own length *)
let show_ptr (c : Utf8.cow) : string =
  if Utf8.is_borrowed c then Printf.sprintf "@0:%d" (L.length (Utf8.cow_bytes c)) else ""

let dec = function "w" -> Encoding.decode_windows1252 | _ -> Encoding.decode_utf8

let () =
  register "enc.via" (function [_route; d; h] -> show_outcome show_cow (dec d (bytes_of_hex h)) | _ -> "BADCASE");
  register "enc.ctx" (function [d; _pre; h; _post] ->
      show_outcome (fun c -> show_cow c ^ show_ptr c) (dec d (bytes_of_hex h)) | _ -> "BADCASE");
  (* s_c12 (wave 6): like enc.ctx; the absolute address of the slice is not part of the model *)
  register "enc.al" (function [d; _al; _pre; h; _post] ->
      show_outcome (fun c -> show_cow c ^ show_ptr c) (dec d (bytes_of_hex h)) | _ -> "BADCASE");
  register "enc.display" (function [h] ->
      let b = bytes_of_hex h in
      show_outcome (function
          | Some s -> "S:" ^ hex_of_bytes s
          | None ->
            let m = Printf.sprintf "non-ascii string of %d length" (L.length b) in
            "S:" ^ S.concat "" (L.map (fun ch -> Printf.sprintf "%02x" (Char.code ch)) (L.of_seq (S.to_seq m))))
        (EncodingRef.scalar_display b) | _ -> "BADCASE");
  register "enc.e2e" (function [d; h] ->
      show_outcome (fun c ->
          let hx = hex_of_bytes (Utf8.cow_bytes c) in
          Printf.sprintf "R=%s%s|S=%s|D=%s|T=%s|C=%s" (show_cow c) (show_ptr c) hx
            (if Utf8.is_borrowed c then hx ^ show_ptr c else "ERR") hx (show_cow c))
        (dec d (bytes_of_hex h)) | _ -> "BADCASE");
  register "enc.cp1252" (function [b] -> string_of_n (EncodingRef.cp1252 (n_of_string b)) | _ -> "BADCASE")
