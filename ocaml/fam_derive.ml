(* C18, attribute-table family: the visitor of a derived struct instantiated from the RAW attribute
   table that the check reads off the harness source (DeriveMacro.spec_of_attrs applies the macro's
   precedence rules), and the declarative spec DeriveMacro.spec_visit.
   dw.text.m / dw.bin.m : <implementation arguments...> <attrs> <kvs>   -> DeriveMacro.visit_attrs
   dw.text.s / dw.bin.s : same arguments                                -> DeriveMacro.spec_visit
     attrs = name:aliases:tokens:dup:last:opt:def:tdef:pdef ; ...
             name hex; aliases = hex,hex,.. or '-'; tokens = hexid,.. or '-'; dup/last/opt = 0|1;
             def = a (absent) | w (word) | p (= "path"); tdef/pdef = hex of the value string or '-'
     kvs   = S<hexkey>=<res> ; I<hexid>/<hexname|?>=<res> ; ...   res = o<hex of value string> | e<class>
             (an I key is a token id: it reaches the field visitor as visit_u16 when the struct has
             token attributes, as the resolved string otherwise: DeriveMacro.uses_token_keys decides)
   output = (struct (<hexname> <value>) ...) | ERR:<class> | REJECTED (the macro would not compile the table) *)
open Glue

let split c s = if s = "-" || s = "" then [] else Stdlib.String.split_on_char c s
let str_of_hex h = let b = bytes_of_hex h in Stdlib.String.concat "" (Stdlib.List.map (fun n -> Stdlib.String.make 1 (Char.chr (int_of_n n))) b)
let tl1 s = Stdlib.String.sub s 1 (Stdlib.String.length s - 1)

let classes = [ ("dup", 101); ("missing", 102); ("de", 1); ("unktoken", 2); ("io", 3); ("eof", 4); ("syntax", 5); ("full", 6) ]
let class_code c = n_of_int (try Stdlib.List.assoc c classes with Not_found -> 99)
let class_name (n : BinNums.coq_N) =
  let i = int_of_n n in
  if i = int_of_n Derive.coq_E_DUP then "dup" else if i = int_of_n Derive.coq_E_MISSING then "missing"
  else (try fst (Stdlib.List.find (fun (_, c) -> c = i) classes) with Not_found -> "other")

let parse_attr (s : string) : string * string DeriveMacro.field_attrs =
  match Stdlib.String.split_on_char ':' s with
  | [name; aliases; tokens; dup; last; opt; def; tdef; pdef] ->
    let v h = if h = "-" then "" else str_of_hex h in
    (name, { DeriveMacro.a_name = bytes_of_hex name;
             DeriveMacro.a_aliases = Stdlib.List.map bytes_of_hex (split ',' aliases);
             DeriveMacro.a_tokens = Stdlib.List.map (fun t -> n_of_int (int_of_string ("0x" ^ t))) (split ',' tokens);
             DeriveMacro.a_duplicated = (dup = "1"); DeriveMacro.a_take_last = (last = "1"); DeriveMacro.a_option = (opt = "1");
             DeriveMacro.a_default = (match def with "w" -> DeriveMacro.DefWord | "p" -> DeriveMacro.DefPath | _ -> DeriveMacro.DefAbsent);
             DeriveMacro.a_type_default = v tdef; DeriveMacro.a_path_default = v pdef })
  | _ -> failwith "bad attrs"

exception Unresolved

let parse_kv tokened (s : string) : Derive.key * string Bytes.outcome =
  let i = Stdlib.String.index s '=' in
  let k = Stdlib.String.sub s 1 (i - 1) and r = Stdlib.String.sub s (i + 1) (Stdlib.String.length s - i - 1) in
  let key =
    if s.[0] = 'S' then Derive.KStr (bytes_of_hex k)
    else begin
      let j = Stdlib.String.index k '/' in
      let id = Stdlib.String.sub k 0 j and nm = Stdlib.String.sub k (j + 1) (Stdlib.String.length k - j - 1) in
      if tokened then Derive.KTok (n_of_int (int_of_string ("0x" ^ id)))
      else if nm = "?" then raise Unresolved
      else Derive.KStr (bytes_of_hex nm)
    end in
  let res = if r.[0] = 'o' then Bytes.Ok (str_of_hex (tl1 r)) else Bytes.Err (class_code (tl1 r)) in
  (key, res)

let show sp (r : string Derive.out list Bytes.outcome) =
  match r with
  | Bytes.Ok outs ->
    let one (name, _) o =
      let v = match o with
        | Derive.OVal v -> v
        | Derive.OVec vs -> "(seq" ^ Stdlib.String.concat "" (Stdlib.List.map (fun x -> " " ^ x) vs) ^ ")" in
      "(" ^ name ^ " " ^ v ^ ")" in
    "(struct" ^ Stdlib.String.concat "" (Stdlib.List.map (fun x -> " " ^ x) (Stdlib.List.map2 one sp outs)) ^ ")"
  | Bytes.Err e -> "ERR:" ^ class_name e
  | _ -> crash_tag

let run spec attrs kvs =
  let sp = Stdlib.List.map parse_attr (split ';' attrs) in
  let tbl = Stdlib.List.map snd sp in
  if not (DeriveMacro.macro_accepts tbl) then "REJECTED"
  else
    try
      let kv = Stdlib.List.map (parse_kv (DeriveMacro.uses_token_keys tbl)) (split ';' kvs) in
      if spec then show sp (DeriveMacro.spec_visit (Stdlib.List.map DeriveMacro.spec_of_attrs tbl) kv)
      else show sp (DeriveMacro.visit_attrs tbl kv)
    with Unresolved -> "UNRESOLVED"

let () =
  register "dw.text.m" (function [_; _; _; _; attrs; kvs] -> run false attrs kvs | _ -> "BADCASE");
  register "dw.bin.m" (function [_; _; _; _; _; _; attrs; kvs] -> run false attrs kvs | _ -> "BADCASE");
  register "dw.text.s" (function [_; _; _; _; attrs; kvs] -> run true attrs kvs | _ -> "BADCASE");
  register "dw.bin.s" (function [_; _; _; _; _; _; attrs; kvs] -> run true attrs kvs | _ -> "BADCASE")
