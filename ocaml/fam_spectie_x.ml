(* wave 5 (w_c10): the EXTENDED logical documents (coq/theories/LogicDocX.v: LogicDoc + DateHour values, colours that are
   read) and the specifications that Props/C10_ext.v is stated over, run on the documents that props/C10_ext.py generates.
   Model-only kinds (the implementation is run on the BYTES these kinds print, through the de.text / de.bin kinds):
     spec.logicx       <xdoc> <choices> <bom> <gaps>
                          -> wf=<b> rgbpos=<b> twf=<b> ext=<b> sx=<b> plain=<b> | <hex of TextDoc.render (to_textx d) l> | <hex of binx_bytes e d>
     spec.logicx.value <enc> <strategy> <resolver> <flavor> <shape> <xdoc> <choices>
                          -> T1=<spec_value2 true on to_textx d> T0=<spec_value2 false ..> B=<BinDoc.spec_of on to_binx e d>
     spec.logicx.embed <ldoc> <choices> <bom> <gaps>
                          -> <hex text of the embedding> | <hex binary of the embedding>   (C10_ext_embeds: = spec.logic's)
   xdoc = the ldoc syntax of fam_spectie.ml with one more scalar:  DH <y> <m> <d> <h> <wide> <quoted>
   Untrusted glue: an error here can only cause a disagreement. *)
open Glue
open Fam_spectie

let rec parse_xval (c : cur) : LogicDocX.xval =
  match next c with
  | "DH" ->
    let y = z_of_string (next c) in let m = z_of_string (next c) in let d = z_of_string (next c) in
    let h = z_of_string (next c) in let wide = flag (next c) in let q = flag (next c) in
    LogicDocX.XScalar (LogicDocX.XDateHour (y, m, d, h, wide, q))
  | "RGB" -> LogicDocX.XRgb (parse_rgb c)
  | "A" -> let n = int_of_string (next c) in LogicDocX.XArr (times n (fun () -> parse_xval c))
  | "O" -> let n = int_of_string (next c) in LogicDocX.XObj (times n (fun () -> parse_xfield c))
  | ("I" | "B" | "S" | "D" | "F") ->
    c.i <- c.i - 1;
    (match parse_lval c with
     | LogicDoc.LScalar l -> LogicDocX.XScalar (LogicDocX.XBase l)
     | _ -> failwith "scalar expected")
  | x -> failwith ("bad xval tag " ^ x)
and parse_xfield (c : cur) : LogicDocX.xfield =
  let k = skind (next c) in
  let key = bytes_of_hex (next c) in
  let v = parse_xval c in
  ((k, key), v)

let parse_xdoc (s : string) : LogicDocX.xdoc =
  let c = cursor s in
  let n = int_of_string (next c) in
  let fs = times n (fun () -> parse_xfield c) in
  finished c; fs

let () =
  register "spec.logicx" (function [d; ch; bom; gaps] ->
      let doc = parse_xdoc d in
      let e = parse_choices ch in
      let (l, ok) = layout_of bom gaps in
      let t = LogicDocX.to_textx doc in
      Printf.sprintf "wf=%s rgbpos=%s twf=%s ext=%s sx=%s plain=%s | %s%s | %s"
        (b01 (LogicDocX.wf_xdoc doc)) (b01 (LogicDocX.rgbpos doc)) (b01 (TextDoc.wf_fields t))
        (b01 (TextDeSpec2.ext_fields t)) (b01 (TextDeSpec2.sx_fields t)) (b01 (TextDeBytes.plain_fields t))
        (if ok then "" else "GAP_NOT_OK ") (hex_of_bytes (TextDoc.render t l))
        (hex_of_bytes (LogicDocX.binx_bytes e doc))
                                  | _ -> "BADCASE");
  register "spec.logicx.value" (function [enc; strat; res; fl; shape; d; ch] ->
      let doc = parse_xdoc d in
      let e = parse_choices ch in
      let (dec, pf) = text_params enc in
      let cfg = Fam_bde.make_cfg strat res fl in
      let sh = Fam_bde.parse_shape shape in
      let (fs, g) = LogicDocX.to_binx e doc in
      let t = LogicDocX.to_textx doc in
      let tv tp = (try show_result (TextDeSpec2.spec_value2 tp dec pf cfg.BinDeCommon.c_fops sh t) with Crash -> crash_tag) in
      let b = show_result (BinDoc.spec_of cfg sh fs g) in
      "T1=" ^ tv true ^ " T0=" ^ tv false ^ " B=" ^ b
                                        | _ -> "BADCASE");
  register "spec.logicx.embed" (function [d; ch; bom; gaps] ->
      let doc = LogicDocX.of_ldoc (parse_ldoc d) in
      let e = parse_choices ch in
      let (l, _) = layout_of bom gaps in
      Printf.sprintf "%s | %s" (hex_of_bytes (TextDoc.render (LogicDocX.to_textx doc) l)) (hex_of_bytes (LogicDocX.binx_bytes e doc))
                                        | _ -> "BADCASE")
