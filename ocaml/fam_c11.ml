(* family c11 (wave 4): the specification functions of ScalarSpec.v against the whole public surface of Scalar *)
open Glue

let hex16 (z : BinNums.coq_Z) : string = Z.format "%016x" (zt_of_z z)

let u64_s d = show_outcome string_of_n (ScalarSpec.u64_spec d)
let i64_s d = show_outcome string_of_z (ScalarSpec.i64_spec d)
let bool_s d = show_outcome string_of_bool (ScalarSpec.bool_spec d)
let f64_s d =
  let (tag, bits) = ScalarSpec.f64_spec_show d in
  match int_of_n tag with
  | 0 -> hex16 bits
  | 4 -> "ERR:4:" ^ hex16 bits
  | c -> "ERR:" ^ string_of_int c

let contains (s : string) (sub : string) : bool =
  let n = S.length s and m = S.length sub in
  let rec go i = i + m <= n && (S.sub s i m = sub || go (i + 1)) in
  go 0

let string_of_bytes (l : BinNums.coq_N list) : string =
  let b = Stdlib.Buffer.create 64 in
  L.iter (fun x -> Stdlib.Buffer.add_char b (Char.chr (int_of_n x))) l;
  Stdlib.Buffer.contents b

let display_canon (d : BinNums.coq_N list) : string =
  match ScalarSpec.scalar_display d with
  | Bytes.Ok out ->
    if L.for_all (fun x -> int_of_n x < 128) d then hex_of_bytes out
    else "nonascii:" ^ string_of_bool (contains (string_of_bytes out) (string_of_int (L.length d)))
  | _ -> crash_tag

let debug_ok (d : BinNums.coq_N list) : string =
  match ScalarSpec.scalar_display d, ScalarSpec.scalar_debug d with
  | Bytes.Ok s, Bytes.Ok g ->
    let s = string_of_bytes s and g = string_of_bytes g in
    string_of_bool (contains g s && S.length g > S.length s)
  | _ -> crash_tag

let err_acc (shown : string) : string =
  if S.length shown >= 4 && S.sub shown 0 4 = "ERR:" then
    (* class only: the payload is not part of scalar_err *)
    let cls = S.sub shown 0 5 in
    cls ^ ":true:true:true:true:true"
  else if shown = crash_tag then crash_tag else "ok"

let () =
  register "c11.u64" (function [h] -> u64_s (bytes_of_hex h) | _ -> "BADCASE");
  register "c11.i64" (function [h] -> i64_s (bytes_of_hex h) | _ -> "BADCASE");
  register "c11.bool" (function [h] -> bool_s (bytes_of_hex h) | _ -> "BADCASE");
  register "c11.f64" (function [h] -> f64_s (bytes_of_hex h) | _ -> "BADCASE");
  register "c11.u64t" (function [h; st] ->
      show_outcome (fun (v, r) -> string_of_n v ^ " " ^ hex_of_bytes r) (ScalarSpec.u64t_spec (bytes_of_hex h) (n_of_string st)) | _ -> "BADCASE");
  register "c11.i64t" (function [h] ->
      show_outcome (fun (v, r) -> string_of_z v ^ " " ^ hex_of_bytes r) (ScalarSpec.i64t_spec (bytes_of_hex h)) | _ -> "BADCASE");
  register "c11.at" (function [h; _off] ->
      let d = bytes_of_hex h in
      S.concat ";" [u64_s d; i64_s d; f64_s d; bool_s d] | _ -> "BADCASE");
  register "c11.pub" (function [ha; hb] ->
      let a = bytes_of_hex ha and b = bytes_of_hex hb in
      S.concat "|" [hex_of_bytes a; string_of_bool (ScalarSpec.scalar_is_ascii a); display_canon a; debug_ok a;
                    string_of_bool (ScalarSpec.scalar_eq a b); "true"] | _ -> "BADCASE");
  register "c11.err" (function [h] ->
      let d = bytes_of_hex h in
      S.concat "|" [err_acc (u64_s d); err_acc (i64_s d); err_acc (f64_s d); err_acc (bool_s d)] | _ -> "BADCASE")
