(* JSON family, text half (C16, wave 4): same case kind and canonical output as
   harness/src/fam_jsontext.rs: the text the extracted printer model JsonText.json_text gives for
   the model's tree.  The float printer is the model's parameter: here `#<16 hex digits of the bits>#`,
   the same canonical form the harness substitutes for every float token of the real text. *)
open Glue
open Ttglue

let n_of_char (c : char) : BinNums.coq_N = n_of_string (string_of_int (Char.code c))

let fmt_f64 (bits : BinNums.coq_N) : BinNums.coq_N list =
  let s = "#" ^ Z.format "%016x" (zt_of_n bits) ^ "#" in
  Stdlib.List.init (Stdlib.String.length s) (fun i -> n_of_char s.[i])

let () =
  register "json.print" (function [_; tape; enc; idx; entry; pretty; dup; narrow] ->
      Fam_dom.guard (fun () ->
          match Fam_dom.json_tree (enc = "u") (tape_of_string tape) idx entry pretty dup narrow with
          | None -> "E"
          | Some j -> hex_of_bytes (JsonText.json_text fmt_f64 (pretty = "1") j))
    | _ -> "BADCASE")
