(* C20 (wave 4, a_c20): model side of harness/src/fam_c20.rs
     c20.tops <cap> <sched> <hex> <ops>   op mix (n r k u by<N>) over the extracted text reader model under a
                                          schedule with Fail events; the run stops at the first failing op
     c20.bde  <path> <strategy> <resolver> <flavor> <shape> <hex>
                                          BinDeReader.deser_reader over a schedule WITH Fail events
                                          (path = reader:<cap>:<sched>, sched = n,n,F,P,...[*][@kF|@kP] as fam_de.rs)
     c20.errconv                          conversions that involve no modelled code: constant *)
open Glue

module St = Stdlib.String
module Li = Stdlib.List

let show_tok (t : TextReader.rtok) : string =
  match t with
  | TextReader.ROpen -> "O"
  | TextReader.RClose -> "C"
  | TextReader.ROp o -> "OP:" ^ string_of_n (TextTok.op_code o)
  | TextReader.RUnq s -> "U:" ^ hex_of_bytes s
  | TextReader.RQuo s -> "Q:" ^ hex_of_bytes s

(* s_c20 (wave 6): `F<k>` = a fault of explicit io::ErrorKind k (not modelled: one Fail event); `<e>x<count>` = the
   event e repeated count times (expanded by fam_c20.rs before util::parse_sched) *)
let parse_sched (s : string) : BufWin.event list =
  if s = "-" || s = "" then []
  else
    let one x = if St.length x > 0 && x.[0] = 'F' then BufWin.Fail else BufWin.Data (n_of_string x) in
    Li.concat_map (fun x ->
        match St.index_opt x 'x' with
        | Some i -> Li.init (int_of_string (St.sub x (i + 1) (St.length x - i - 1))) (fun _ -> one (St.sub x 0 i))
        | None -> [one x]) (St.split_on_char ',' s)

let starts_with p s = St.length s >= St.length p && St.sub s 0 (St.length p) = p

let text_ops cap sched h ops : string =
  let input = bytes_of_hex h in
  let evs = parse_sched sched in
  let fuel = nat_of_int (4 * (Li.length input + St.length sched + Li.length evs) + 64) in
  let r = ref (TextReader.reader_new (nat_of_int (int_of_string cap)) input evs) in
  let out = ref [] in
  let crashed = ref false in
  let pos () = string_of_int (int_of_nat (TextReader.reader_position !r)) in
  let ok s r' = r := r'; out := (s ^ "@" ^ pos ()) :: !out; true in
  let err e = out := ("ERR:" ^ string_of_n e) :: !out; false in
  let crash () = crashed := true; false in
  let step op : bool =
    match op with
    | "n" | "r" ->
      (match TextReader.next_opt fuel !r with
       | TextReader.NTok (t, r') -> ok (show_tok t) r'
       | TextReader.NEnd r' -> if op = "n" then ok "NONE" r' else err (n_of_int 102)
       | TextReader.NErr (e, _) -> err e
       | TextReader.NCrash _ -> crash ())
    | "k" | "u" ->
      (match (if op = "k" then TextReader.skip_container fuel !r else TextReader.skip_unquoted_value fuel !r) with
       | Bytes.Ok r' -> ok "OK" r'
       | Bytes.Err e -> err e
       | _ -> crash ())
    | _ when starts_with "by" op ->
      let n = int_of_string (St.sub op 2 (St.length op - 2)) in
      (match TextReader.read_bytes fuel !r (nat_of_int n) with
       | Bytes.Ok (b, r') -> ok ("B:" ^ hex_of_bytes b) r'
       | Bytes.Err e -> err e
       | _ -> crash ())
    | _ -> failwith "bad op" in
  let rec go = function [] -> () | op :: rest -> if step op then go rest in
  go (if ops = "-" || ops = "" then [] else St.split_on_char ',' ops);
  if !crashed then crash_tag
  else if !out = [] then "-" else St.concat " " (Li.rev !out)

(* fam_de.rs SchedRead: base list (n | F | P, optional trailing '*' = cycle; exhausted = fill) with an optional
   injection @<k>F / @<k>P on top: call k fails (and every later call when persistent) WITHOUT consuming a base
   event.  Unrolled into a plain event list long enough for the data; a persistent fault is a tail of Fail events
   (the deserializer stops at the first error, so [len + 8] of them stand for "forever"). *)
let de_sched (s : string) (len : int) : BufWin.event list =
  let base, inj = match St.index_opt s '@' with
    | Some i -> St.sub s 0 i, Some (St.sub s (i + 1) (St.length s - i - 1))
    | None -> s, None in
  let cyc = St.length base > 0 && base.[St.length base - 1] = '*' in
  let b = if cyc then St.sub base 0 (St.length base - 1) else base in
  let evs = if b = "-" || b = "" then [] else St.split_on_char ',' b in
  let total = len + 8 in
  (* the base events as an infinite supply *)
  let arr = Stdlib.Array.of_list evs in
  let nb = Stdlib.Array.length arr in
  let base_at i = if nb = 0 then "fill" else if i < nb then arr.(i) else if cyc then arr.(i mod nb) else "fill" in
  (* s_c20 (wave 6): @<k>(F|P)[<kind>][x<run>]: the io::ErrorKind is not modelled (one Fail event); run = number of
     consecutive failing calls of a one-shot fault *)
  let run = ref 1 in
  let inj = match inj with
    | None -> None
    | Some x ->
      let x = match St.index_opt x 'x' with
        | Some i -> run := int_of_string (St.sub x (i + 1) (St.length x - i - 1)); St.sub x 0 i
        | None -> x in
      let at = match St.index_opt x 'F' with Some i -> i | None -> St.index x 'P' in
      Some (int_of_string (St.sub x 0 at), x.[at] = 'P') in
  let out = ref [] in
  let bi = ref 0 in
  let dead = ref false in
  for call = 0 to total + !run - 1 do
    if !dead then out := BufWin.Fail :: !out
    else match inj with
      | Some (k, pers) when call >= k && call < k + !run -> (if pers then dead := true); out := BufWin.Fail :: !out
      | _ ->
        let e = base_at !bi in
        incr bi;
        (match e with
         | "F" -> out := BufWin.Fail :: !out
         | "P" -> dead := true; out := BufWin.Fail :: !out
         | "fill" -> out := BufWin.Data (n_of_int 1000000000) :: !out
         | n -> out := BufWin.Data (n_of_int (max 1 (int_of_string n))) :: !out)
  done;
  Li.rev !out

let () =
  register "c20.tops" (function [cap; sched; h; ops] -> text_ops cap sched h ops | _ -> "BADCASE");
  register "c20.errconv" (function [] -> "A0 1" | _ -> "BADCASE");
  register "c20.bde" (function
      | [path; strat; res; fl; shape; h] ->
        let cfg = Fam_bde.make_cfg strat res fl in
        let sh = Fam_bde.parse_shape shape in
        let d = bytes_of_hex h in
        (match St.split_on_char ':' path with
         | ["reader"; cap; sched] ->
           Fam_bde.show_result
             (BinDeReader.deser_reader cfg (nat_of_int (int_of_string cap)) (de_sched sched (Li.length d)) sh d)
         | _ -> "BADCASE")
      | _ -> "BADCASE")
