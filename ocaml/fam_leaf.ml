(* util / data / scalar / date families *)
open Glue

let show_raw (r : Date.rawdate) =
  Printf.sprintf "ok %s %s %s %s" (string_of_z r.Date.ry) (string_of_z (Date.raw_month r))
    (string_of_z (Date.raw_day r)) (string_of_z (Date.raw_hour r))
let show_oraw o = show_outcome (function None -> "none" | Some r -> show_raw r) o

let mk_date y m d = Date.date_from_ymd_opt (z_of_string y) (z_of_string m) (z_of_string d)
let with_date y m d (f : Date.rawdate -> string) : string =
  match mk_date y m d with Bytes.Ok (Some r) -> f r | Bytes.Ok None -> "invalid" | o -> show_outcome (fun _ -> "") o

let () =
  register "util.fdp" (function [w] -> (match U64Swar.fast_digit_parse (n_of_string w) with None -> "none" | Some v -> string_of_n v) | _ -> "BADCASE");
  register "util.czb" (function [w] -> string_of_bool (U64Swar.contains_zero_byte (n_of_string w)) | _ -> "BADCASE");
  register "util.cc" (function [w; b] -> string_of_n (U64Swar.count_chunk (n_of_string w) (n_of_string b)) | _ -> "BADCASE");
  register "util.lw" (function [w] -> string_of_n (U64Swar.leading_whitespace (n_of_string w)) | _ -> "BADCASE");
  register "util.rep" (function [b] -> string_of_n (U64Swar.repeat_byte (n_of_string b)) | _ -> "BADCASE");
  register "data.boundary" (function [b] -> string_of_n (Tables.boundary_class (n_of_string b)) | _ -> "BADCASE");
  register "data.w1252" (function [b] -> string_of_n (Tables.w1252 (n_of_string b)) | _ -> "BADCASE");
  register "scalar.u64" (function [h] -> show_outcome string_of_n (Scalar.to_u64 (bytes_of_hex h)) | _ -> "BADCASE");
  register "scalar.i64" (function [h] -> show_outcome string_of_z (Scalar.to_i64 (bytes_of_hex h)) | _ -> "BADCASE");
  register "scalar.bool" (function [h] -> show_outcome string_of_bool (Scalar.to_bool (bytes_of_hex h)) | _ -> "BADCASE");
  register "scalar.u64t" (function [h; s] ->
      show_outcome (fun (v, r) -> string_of_n v ^ " " ^ hex_of_bytes r) (Scalar.to_u64_t (bytes_of_hex h) (n_of_string s)) | _ -> "BADCASE");
  register "scalar.i64t" (function [h] ->
      show_outcome (fun (v, r) -> string_of_z v ^ " " ^ hex_of_bytes r) (Scalar.to_i64_t (bytes_of_hex h)) | _ -> "BADCASE");
  register "date.parse" (function [h] -> show_oraw (Date.date_parse (bytes_of_hex h)) | _ -> "BADCASE");
  register "dh.parse" (function [h] -> show_oraw (Date.datehour_parse (bytes_of_hex h)) | _ -> "BADCASE");
  register "ud.parse" (function [h] -> show_oraw (Date.uniform_parse (bytes_of_hex h)) | _ -> "BADCASE");
  register "raw.parse" (function [h] -> show_oraw (Date.raw_parse (bytes_of_hex h)) | _ -> "BADCASE");
  register "date.frombin" (function [s] -> show_oraw (Date.date_from_binary (z_of_string s)) | _ -> "BADCASE");
  register "date.frombinh" (function [s] -> show_oraw (Date.date_from_binary_heuristic (z_of_string s)) | _ -> "BADCASE");
  register "dh.frombin" (function [s] -> show_oraw (Date.datehour_from_binary (z_of_string s)) | _ -> "BADCASE");
  register "dh.frombinh" (function [s] -> show_oraw (Date.datehour_from_binary_heuristic (z_of_string s)) | _ -> "BADCASE");
  register "date.ymd" (function [y; m; d] -> show_oraw (mk_date y m d) | _ -> "BADCASE");
  register "dh.ymdh" (function [y; m; d; h] ->
      show_oraw (Date.datehour_from_ymdh_opt (z_of_string y) (z_of_string m) (z_of_string d) (z_of_string h)) | _ -> "BADCASE");
  register "ud.ymd" (function [y; m; d] ->
      (match Date.uniform_from_ymd_opt (z_of_string y) (z_of_string m) (z_of_string d) with None -> "none" | Some r -> show_raw r) | _ -> "BADCASE");
  register "raw.ymdh" (function [y; m; d; h] ->
      (match Date.raw_from_ymdh_opt (z_of_string y) (z_of_string m) (z_of_string d) (z_of_string h) with None -> "none" | Some r -> show_raw r) | _ -> "BADCASE");
  register "date.tobin" (function [y; m; d] -> with_date y m d (fun r -> show_outcome string_of_z (Date.date_to_binary r)) | _ -> "BADCASE");
  register "dh.tobin" (function [y; m; d; h] ->
      (match Date.datehour_from_ymdh_opt (z_of_string y) (z_of_string m) (z_of_string d) (z_of_string h) with
       | Bytes.Ok (Some r) -> show_outcome string_of_z (Date.datehour_to_binary r)
       | Bytes.Ok None -> "invalid" | o -> show_outcome (fun _ -> "") o) | _ -> "BADCASE");
  (* formatting: which = date | dh | ud | raw *)
  register "date.fmt" (function [which; y; m; d; h] ->
      let zy, zm, zd, zh = z_of_string y, z_of_string m, z_of_string d, z_of_string h in
      let r = match which with
        | "date" -> Date.date_from_ymd_opt zy zm zd
        | "dh" -> Date.datehour_from_ymdh_opt zy zm zd zh
        | "ud" -> Bytes.Ok (Date.uniform_from_ymd_opt zy zm zd)
        | _ -> Bytes.Ok (Date.raw_from_ymdh_opt zy zm zd zh) in
      (match r with
       | Bytes.Ok (Some r) -> hex_of_bytes (Date.game_fmt (which = "ud") r) ^ " " ^ hex_of_bytes (Date.iso_fmt r)
       | Bytes.Ok None -> "invalid" | o -> show_outcome (fun _ -> "") o) | _ -> "BADCASE");
  register "date.add" (function [y; m; d; n] ->
      with_date y m d (fun r -> show_outcome show_raw (Date.add_days r (z_of_string n))) | _ -> "BADCASE");
  register "date.until" (function [y; m; d; y2; m2; d2] ->
      with_date y m d (fun a -> with_date y2 m2 d2 (fun b -> show_outcome string_of_z (Date.days_until a b))) | _ -> "BADCASE");
  register "date.cmp" (function [y; m; d; y2; m2; d2] ->
      with_date y m d (fun a -> with_date y2 m2 d2 (fun b ->
        match Date.raw_cmp a b with Datatypes.Lt -> "lt" | Datatypes.Eq -> "eq" | Datatypes.Gt -> "gt")) | _ -> "BADCASE")
