(* w_btcap (wave 5, C05): binary tape parser over a token vector WITH a capacity (BinTapeCap.v) *)
open Glue

let show_cap (o : (BinTape.tape * Datatypes.nat) Bytes.outcome) : string =
  match o with
  | Bytes.Ok (t, c) -> Fam_bintape.show_res (Bytes.Ok t) ^ " cap=" ^ string_of_int (int_of_nat c)
  | Bytes.Err _ -> "ERR"
  | _ -> crash_tag ^ ":" ^ show_crash o

(* first parse on a fresh vector of capacity c0, second parse on whatever vector the first one left (after an
   error the model has no vector any more: it is rebuilt from the capacity the case reports and an unknown content,
   which the clear() of the second parse discards anyway) *)
let capreuse (c0 : int) (d1 : BinNums.coq_N list) (d2 : BinNums.coq_N list) : string =
  let fx = Tables.fast_path_excludes_i64 in
  let first = BinTapeCap.parse_cap BinTapeCap.rust_policy fx true (BinTapeCap.fresh (nat_of_int c0)) d1 in
  match first with
  | Bytes.Ok v ->
    let mid = int_of_nat (BinTapeCap.v_cap v) in
    let second = BinTapeCap.parse_cap BinTapeCap.rust_policy fx true v d2 in
    let o = (match second with
        | Bytes.Ok v2 -> Bytes.Ok (fst v2, BinTapeCap.v_cap v2)
        | Bytes.Err e -> Bytes.Err e | Bytes.Panic s -> Bytes.Panic s | Bytes.OOB s -> Bytes.OOB s | Bytes.OutOfFuel -> Bytes.OutOfFuel) in
    Printf.sprintf "mid=%d opt=%s" mid (show_cap o)
  | Bytes.Err _ -> "FIRST-ERR"
  | _ -> crash_tag ^ ":" ^ show_crash first

let () =
  register "bt.cap" (function [c0; h] ->
      let d = bytes_of_hex h and c = nat_of_int (int_of_string c0) in
      Printf.sprintf "opt=%s | ref=%s" (show_cap (BinTapeCap.parse_cap_opt c d)) (show_cap (BinTapeCap.parse_cap_ref c d))
    | _ -> "BADCASE");
  register "bt.capreuse" (function [c0; h1; h2] -> capreuse (int_of_string c0) (bytes_of_hex h1) (bytes_of_hex h2) | _ -> "BADCASE")
