(* The Coq SPECIFICATIONS of the deserializer properties (C02, C04, C10) run on the documents that the
   Python generator props/dedoc.py emits -- the `spec_tie` streams of props/C02.py, C04.py, C10.py.
   Ties props/dedoc.py (render_text, render_bin, expected) to the definitions the walk theorems are
   stated over:
     TextDeSpec.spec_value / tokens / core_fields, TextDoc.render / flatten / wf_fields   (Props/C02_walk.v)
     BinDoc.spec_of (= spec_value at the entry points' fuel) / enc_doc / flat_doc / wf_doc / tape_ok_doc
                                                                                        (Props/C04_walk.v)
     LogicDoc.to_text / to_bin                                                          (Props/C10_link.v)
   Model-only kinds (the harness has no counterpart; props run them with vlib.run_model):
     spec.text.doc    <tdoc>                       -> wf=<b> core=<b> | <flatten tape> | <reader tokens> END
     spec.text.render <tdoc> <bom> <gap,gap,..>    -> gaps_ok|GAP_NOT_OK <hex of TextDoc.render>
     spec.text.value  <enc> <shape> <tdoc>         -> value (harness show_value syntax) | ERR:<class> (ERR:unfit)
     spec.bin.enc     <bdoc>                       -> wf=<b> tape_ok=<b> | <hex of enc_doc> | OK <flat_doc tape>
     spec.bin.value   <strategy> <resolver> <flavor> <shape> <bdoc>   -> value | ERR:<class>
     spec.logic       <ldoc> <choices> <bom> <gaps>                   -> wf=<b> norgb=<b> | <hex text> | <hex binary>
     spec.logic.value <enc> <strategy> <resolver> <flavor> <shape> <ldoc> <choices>
                                                   -> T=<spec_value on to_text d> B=<spec_of on to_bin e d>
   Document syntaxes (space separated prefix encodings, byte strings as hex, "-" = empty):
     tdoc   = the encoding of ocaml/fam_spec.ml (props/textdoc.ser)
     bdoc   = <gend> <n> field*          field = <ghost> <scalar> <value>
              scalar = ID:<hex4> | Q:<hex> | U:<hex> | I32:<z> | U32:<n> | U64:<n> | I64:<z> | B:<0|1> | F32:<hex> | F64:<hex>
              value  = S <scalar> | RGB <r> <g> <b> <a|-> | A <n> value* | O <gend> <n> field*
     ldoc   = <n> lfield*                lfield = <U|Q> <hexkey> <lval>
              lval   = I <z> | B <0|1> | S <U|Q> <hex> | D <y> <m> <d> <wide> <quoted> | F <hexraw> <hexp32> <hexp64>
                     | RGB <r> <g> <b> <a|-> | A <n> lval* | O <n> lfield*
     choices = <path>=<int>,<str>,<date_i32>,<f32>,<key>,<kghost>,<ghost>;...   ("-" = none)
              path = r (root) | i.j.k (child indices from the root); int = i32|u32|i64|u64; str/key = Q | U | I<hex4>;
              unlisted nodes get i32,Q,1,0,U,0,0
   LogicDoc.shared / enc_ok and TextDeSpec.fits / BinDoc.fits_shape are Props (erased by extraction):
   fits is observable as "the specification does not answer ERR:unfit"; shared is NOT run (see props/C10.py).
   Untrusted glue: an error here can only cause a disagreement. *)
open Glue

(* ------------------------------------------------------------------ parameters *)
(* the parameters of TextDeSpec.spec_value, instantiated as ocaml/fam_tde.ml instantiates those of the walk
   models (that file is linked after this one, hence the copy): Encoding::decode = the extracted decoders,
   Scalar::to_f64 = the extracted ScalarF64.to_f64_bits, serde's float casts = the machine's (Fam_bde.fops) *)
exception Crash

let decode_of (enc : string) : BinNums.coq_N list -> Utf8.cow =
  let f = if enc = "utf8" then Encoding.decode_utf8 else Encoding.decode_windows1252 in
  fun d -> match f d with Bytes.Ok c -> c | _ -> raise Crash

let parse_f64 (d : BinNums.coq_N list) : BinNums.coq_N Bytes.outcome =
  match ScalarF64.to_f64_bits d with
  | Bytes.Ok z -> Bytes.Ok (n_of_zt (zt_of_z z))
  | Bytes.Err e -> Bytes.Err e
  | Bytes.Panic s -> Bytes.Panic s
  | Bytes.OOB s -> Bytes.OOB s
  | Bytes.OutOfFuel -> Bytes.OutOfFuel

let text_params (enc : string) = (decode_of enc, parse_f64)

(* values as harness show_value prints them; EC_UNFIT as ERR:unfit; model crash outcomes as PANIC *)
let show_result (o : SerdeShape.dval Bytes.outcome) : string =
  match o with
  | Bytes.Ok _ | Bytes.Err _ -> Fam_bde.show_result o
  | _ -> crash_tag

(* ------------------------------------------------------------------ a token cursor *)
type cur = { a : string array; mutable i : int }
let cursor (s : string) : cur = { a = Array.of_list (L.filter (fun x -> x <> "") (S.split_on_char ' ' s)); i = 0 }
let next (c : cur) : string =
  if c.i >= Array.length c.a then failwith "document syntax: unexpected end";
  let x = c.a.(c.i) in c.i <- c.i + 1; x
let finished (c : cur) = if c.i <> Array.length c.a then failwith "document syntax: trailing input"
let rec times n f = if n <= 0 then [] else let x = f () in x :: times (n - 1) f
let flag s = (s = "1")

(* ------------------------------------------------------------------ binary documents *)
let parse_bscalar (s : string) : BinDoc.bscalar =
  match S.index_opt s ':' with
  | None -> failwith ("bad scalar " ^ s)
  | Some j ->
    let k = S.sub s 0 j and v = S.sub s (j + 1) (S.length s - j - 1) in
    (match k with
     | "ID" -> BinDoc.SId (n_of_int (int_of_string ("0x" ^ v)))
     | "Q" -> BinDoc.SQuoted (bytes_of_hex v)
     | "U" -> BinDoc.SUnquoted (bytes_of_hex v)
     | "I32" -> BinDoc.SI32 (z_of_string v)
     | "U32" -> BinDoc.SU32 (n_of_string v)
     | "U64" -> BinDoc.SU64 (n_of_string v)
     | "I64" -> BinDoc.SI64 (z_of_string v)
     | "B" -> BinDoc.SBool (v = "1")
     | "F32" -> BinDoc.SF32 (bytes_of_hex v)
     | "F64" -> BinDoc.SF64 (bytes_of_hex v)
     | _ -> failwith ("bad scalar kind " ^ k))

let parse_rgb (c : cur) : BinPrim.rgb =
  let r = n_of_string (next c) in
  let g = n_of_string (next c) in
  let b = n_of_string (next c) in
  let a = match next c with "-" -> None | x -> Some (n_of_string x) in
  { BinPrim.rgb_r = r; rgb_g = g; rgb_b = b; rgb_a = a }

let rec parse_bval (c : cur) : BinDoc.bval =
  match next c with
  | "S" -> BinDoc.VScalar (parse_bscalar (next c))
  | "RGB" -> BinDoc.VRgb (parse_rgb c)
  | "A" -> let n = int_of_string (next c) in BinDoc.VArr (times n (fun () -> parse_bval c))
  | "O" -> let g = flag (next c) in let n = int_of_string (next c) in
    let fs = times n (fun () -> parse_bfield c) in BinDoc.VObj (fs, g)
  | x -> failwith ("bad value tag " ^ x)
and parse_bfield (c : cur) : BinDoc.bfield =
  let g = flag (next c) in
  let k = parse_bscalar (next c) in
  let v = parse_bval c in
  ((g, k), v)

let parse_bdoc (s : string) : BinDoc.bfield list * bool =
  let c = cursor s in
  let g = flag (next c) in
  let n = int_of_string (next c) in
  let fs = times n (fun () -> parse_bfield c) in
  finished c; (fs, g)

let b01 b = if b then "1" else "0"

let show_btape (t : BinTape.tape) : string = S.concat " " ("OK" :: L.map Fam_bintape.show_tok t)

(* ------------------------------------------------------------------ logical documents *)
let skind s : TextDoc.skind = if s = "Q" then TextDoc.Quo else TextDoc.Unq

let rec parse_lval (c : cur) : LogicDoc.lval =
  match next c with
  | "I" -> LogicDoc.LScalar (LogicDoc.LInt (z_of_string (next c)))
  | "B" -> LogicDoc.LScalar (LogicDoc.LBool (flag (next c)))
  | "S" -> let k = skind (next c) in let s = bytes_of_hex (next c) in LogicDoc.LScalar (LogicDoc.LStr (k, s))
  | "D" ->
    let y = z_of_string (next c) in let m = z_of_string (next c) in let d = z_of_string (next c) in
    let wide = flag (next c) in let q = flag (next c) in
    LogicDoc.LScalar (LogicDoc.LDate (y, m, d, wide, q))
  | "F" ->
    let raw = bytes_of_hex (next c) in let p32 = bytes_of_hex (next c) in let p64 = bytes_of_hex (next c) in
    LogicDoc.LScalar (LogicDoc.LFloat (raw, p32, p64))
  | "RGB" -> LogicDoc.LRgb (parse_rgb c)
  | "A" -> let n = int_of_string (next c) in LogicDoc.LArr (times n (fun () -> parse_lval c))
  | "O" -> let n = int_of_string (next c) in LogicDoc.LObj (times n (fun () -> parse_lfield c))
  | x -> failwith ("bad lval tag " ^ x)
and parse_lfield (c : cur) : LogicDoc.lfield =
  let k = skind (next c) in
  let key = bytes_of_hex (next c) in
  let v = parse_lval c in
  ((k, key), v)

let parse_ldoc (s : string) : LogicDoc.ldoc =
  let c = cursor s in
  let n = int_of_string (next c) in
  let fs = times n (fun () -> parse_lfield c) in
  finished c; fs

let parse_sform (s : string) : LogicDoc.sform =
  if s = "Q" then LogicDoc.FQuoted
  else if s = "U" then LogicDoc.FUnquoted
  else if S.length s > 1 && s.[0] = 'I' then LogicDoc.FId (n_of_int (int_of_string ("0x" ^ S.sub s 1 (S.length s - 1))))
  else failwith ("bad string form " ^ s)

let parse_choice (s : string) : LogicDoc.choice =
  match S.split_on_char ',' s with
  | [w; st; di; f32; key; kg; g] ->
    let w = match w with
      | "i32" -> LogicDoc.WI32 | "u32" -> LogicDoc.WU32 | "i64" -> LogicDoc.WI64 | "u64" -> LogicDoc.WU64
      | _ -> failwith ("bad width " ^ w) in
    { LogicDoc.ch_int = w; ch_str = parse_sform st; ch_date_i32 = flag di; ch_f32 = flag f32;
      ch_key = parse_sform key; ch_kghost = flag kg; ch_ghost = flag g }
  | _ -> failwith ("bad choice " ^ s)

let default_choice = parse_choice "i32,Q,1,0,U,0,0"

let parse_choices (s : string) : LogicDoc.enc_choice =
  let tab : (int list, LogicDoc.choice) Hashtbl.t = Hashtbl.create 64 in
  if s <> "-" && s <> "" then
    L.iter (fun item ->
        if item <> "" then begin
          let j = S.index item '=' in
          let p = S.sub item 0 j and ch = S.sub item (j + 1) (S.length item - j - 1) in
          let path = if p = "r" then [] else L.map int_of_string (S.split_on_char '.' p) in
          Hashtbl.replace tab path (parse_choice ch)
        end) (S.split_on_char ';' s);
  fun (p : Datatypes.nat list) ->
    match Hashtbl.find_opt tab (L.map int_of_nat p) with Some c -> c | None -> default_choice

(* ------------------------------------------------------------------ layouts *)
let layout_of (bom : string) (gaps : string) : TextDoc.layout * bool =
  let gl = Array.of_list (L.map bytes_of_hex (S.split_on_char ',' gaps)) in
  let g (n : Datatypes.nat) = let k = int_of_nat n in if k < Array.length gl then gl.(k) else [] in
  ({ TextDoc.bom = (bom = "1"); TextDoc.gap = g }, Array.for_all (fun x -> TextDoc.gap_okb x) gl)

let show_rtok (t : TextReader.rtok) : string =
  match t with
  | TextReader.ROpen -> "O"
  | TextReader.RClose -> "C"
  | TextReader.ROp o -> "OP:" ^ string_of_n (TextTok.op_code o)
  | TextReader.RUnq s -> "U:" ^ hex_of_bytes s
  | TextReader.RQuo s -> "Q:" ^ hex_of_bytes s

let show_rtoks ((ts, e) : TextReader.rtok list * BinNums.coq_N option) : string =
  S.concat " " (L.map show_rtok ts @ [match e with None -> "END" | Some c -> "ERR:" ^ string_of_n c])

(* ------------------------------------------------------------------ kinds *)
let () =
  register "spec.text.doc" (function [d] ->
      let doc = Fam_spec.parse_doc d in
      Printf.sprintf "wf=%s core=%s | %s | %s" (b01 (TextDoc.wf_fields doc)) (b01 (TextDeSpec.core_fields doc))
        (Ttglue.string_of_tape (TextDoc.flatten doc)) (show_rtoks (TextDeSpec.tokens doc))
                                    | _ -> "BADCASE");
  register "spec.text.render" (function [d; bom; gaps] ->
      let doc = Fam_spec.parse_doc d in
      let (l, ok) = layout_of bom gaps in
      (if ok then "gaps_ok " else "GAP_NOT_OK ") ^ hex_of_bytes (TextDoc.render doc l)
                                       | _ -> "BADCASE");
  register "spec.text.value" (function [enc; shape; d] ->
      let doc = Fam_spec.parse_doc d in
      let (dec, pf) = text_params enc in
      (try show_result (TextDeSpec.spec_value dec pf Fam_bde.fops (Fam_bde.parse_shape shape) doc)
       with Crash -> crash_tag)
                                      | _ -> "BADCASE");
  register "spec.bin.enc" (function [d] ->
      let (fs, g) = parse_bdoc d in
      Printf.sprintf "wf=%s tape_ok=%s | %s | %s" (b01 (BinDoc.wf_doc fs g)) (b01 (BinDoc.tape_ok_doc fs))
        (hex_of_bytes (BinDoc.enc_doc fs g)) (show_btape (BinDoc.flat_doc fs))
                                   | _ -> "BADCASE");
  register "spec.bin.value" (function [strat; res; fl; shape; d] ->
      let (fs, g) = parse_bdoc d in
      let cfg = Fam_bde.make_cfg strat res fl in
      show_result (BinDoc.spec_of cfg (Fam_bde.parse_shape shape) fs g)
                                     | _ -> "BADCASE");
  register "spec.logic" (function [d; ch; bom; gaps] ->
      let doc = parse_ldoc d in
      let e = parse_choices ch in
      let (l, ok) = layout_of bom gaps in
      let (fs, g) = LogicDoc.to_bin e doc in
      Printf.sprintf "wf=%s norgb=%s | %s%s | %s" (b01 (LogicDoc.wf_ldoc doc)) (b01 (LogicDoc.norgb_fields doc))
        (if ok then "" else "GAP_NOT_OK ") (hex_of_bytes (TextDoc.render (LogicDoc.to_text doc) l))
        (hex_of_bytes (BinDoc.enc_doc fs g))
                                 | _ -> "BADCASE");
  register "spec.logic.value" (function [enc; strat; res; fl; shape; d; ch] ->
      let doc = parse_ldoc d in
      let e = parse_choices ch in
      let (dec, pf) = text_params enc in
      let cfg = Fam_bde.make_cfg strat res fl in
      let (fs, g) = LogicDoc.to_bin e doc in
      let t = (try show_result (TextDeSpec.spec_value dec pf cfg.BinDeCommon.c_fops (Fam_bde.parse_shape shape) (LogicDoc.to_text doc))
               with Crash -> crash_tag) in
      let b = show_result (BinDoc.spec_of cfg (Fam_bde.parse_shape shape) fs g) in
      "T=" ^ t ^ " B=" ^ b
                                       | _ -> "BADCASE")
