(* binary lexer / streaming reader family (C08, binary half of C09) *)
open Glue

let show_rgb (c : BinPrim.rgb) =
  Printf.sprintf "RGB:%s,%s,%s%s" (string_of_n c.BinPrim.rgb_r) (string_of_n c.BinPrim.rgb_g) (string_of_n c.BinPrim.rgb_b)
    (match c.BinPrim.rgb_a with None -> "" | Some a -> "," ^ string_of_n a)

let show_tok (t : BinPrim.btoken) : string =
  match t with
  | BinPrim.BOpen -> "O" | BinPrim.BClose -> "C" | BinPrim.BEqual -> "EQ"
  | BinPrim.BU32 x -> "U32:" ^ string_of_n x
  | BinPrim.BU64 x -> "U64:" ^ string_of_n x
  | BinPrim.BI32 x -> "I32:" ^ string_of_z x
  | BinPrim.BBool b -> if b then "BOOL:1" else "BOOL:0"
  | BinPrim.BQuoted s -> "Q:" ^ hex_of_bytes s
  | BinPrim.BUnquoted s -> "U:" ^ hex_of_bytes s
  | BinPrim.BF32 s -> "F32:" ^ hex_of_bytes s
  | BinPrim.BF64 s -> "F64:" ^ hex_of_bytes s
  | BinPrim.BRgb c -> show_rgb c
  | BinPrim.BI64 x -> "I64:" ^ string_of_z x
  | BinPrim.BId x -> "T:" ^ string_of_n x

let split_colon s =
  match S.index_opt s ':' with
  | None -> (s, "")
  | Some i -> (S.sub s 0 i, S.sub s (i + 1) (S.length s - i - 1))

let parse_tok (s : string) : BinPrim.btoken =
  let (k, v) = split_colon s in
  match k with
  | "O" -> BinPrim.BOpen | "C" -> BinPrim.BClose | "EQ" -> BinPrim.BEqual
  | "U32" -> BinPrim.BU32 (n_of_string v)
  | "U64" -> BinPrim.BU64 (n_of_string v)
  | "I32" -> BinPrim.BI32 (z_of_string v)
  | "BOOL" -> BinPrim.BBool (v = "1")
  | "Q" -> BinPrim.BQuoted (bytes_of_hex v)
  | "U" -> BinPrim.BUnquoted (bytes_of_hex v)
  | "F32" -> BinPrim.BF32 (bytes_of_hex v)
  | "F64" -> BinPrim.BF64 (bytes_of_hex v)
  | "RGB" ->
    (match L.map n_of_string (S.split_on_char ',' v) with
     | [r; g; b] -> BinPrim.BRgb { BinPrim.rgb_r = r; rgb_g = g; rgb_b = b; rgb_a = None }
     | [r; g; b; a] -> BinPrim.BRgb { BinPrim.rgb_r = r; rgb_g = g; rgb_b = b; rgb_a = Some a }
     | _ -> failwith "bad rgb")
  | "I64" -> BinPrim.BI64 (z_of_string v)
  | "T" -> BinPrim.BId (n_of_string v)
  | _ -> failwith "bad token"

let show_o (pr : 'a -> string) (o : 'a Bytes.outcome) : string = show_outcome pr o

let show_run ((ts, (e, pos)) : BinLexer.run_res) : string =
  let toks = if ts = [] then "-" else S.concat " " (L.map show_tok ts) in
  Printf.sprintf "%s|%s|%d" toks (show_o (fun () -> "END") e) (int_of_nat pos)

let parse_sched (s : string) : BufWin.event list =
  if s = "-" || s = "" then []
  else L.map (fun x -> if x = "F" then BufWin.Fail else BufWin.Data (n_of_string x)) (S.split_on_char ',' s)

let starts_with p s = S.length s >= S.length p && S.sub s 0 (S.length p) = p
let after p s = S.sub s (S.length p) (S.length s - S.length p)

(* lexer op interpreter *)
let lex_ops (d : BinNums.coq_N list) (ops : string list) : string =
  let l = ref (BinLexer.lx_new d) in
  let out = Stdlib.Buffer.create 256 in
  let emit s =
    if Stdlib.Buffer.length out > 0 then Stdlib.Buffer.add_char out ' ';
    Stdlib.Buffer.add_string out s;
    Stdlib.Buffer.add_char out '@';
    Stdlib.Buffer.add_string out (string_of_int (int_of_nat (BinLexer.lx_position !l))) in
  let run pr f = let (o, l') = f !l in l := l'; emit (show_o pr o) in
  let opt pr = function None -> "NONE" | Some x -> pr x in
  let unit_ () = "OK" in
  let id_ x = "ID:" ^ string_of_n x in
  L.iter (fun op ->
      match op with
      | "t" -> run show_tok BinLexer.lx_read_token
      | "n" -> run (opt show_tok) BinLexer.lx_next_token
      | "i" -> run id_ BinLexer.lx_read_id
      | "ni" -> run (opt id_) BinLexer.lx_next_id
      | "pi" -> emit (opt id_ (BinLexer.lx_peek_id !l))
      | "pt" -> emit (opt show_tok (BinLexer.lx_peek_token !l))
      (* >>> a_c08 *)
      | "rem" -> emit ("REM:" ^ hex_of_bytes (BinLexer.lx_remainder !l))
      (* <<< a_c08 *)
      | "s" -> run hex_of_bytes BinLexer.lx_read_string
      | "b" -> run (fun b -> if b then "1" else "0") BinLexer.lx_read_bool
      | "u32" -> run string_of_n BinLexer.lx_read_u32
      | "u64" -> run string_of_n BinLexer.lx_read_u64
      | "i32" -> run string_of_z BinLexer.lx_read_i32
      | "i64" -> run string_of_z BinLexer.lx_read_i64
      | "f32" -> run hex_of_bytes BinLexer.lx_read_f32
      | "f64" -> run hex_of_bytes BinLexer.lx_read_f64
      | "rgb" -> run show_rgb BinLexer.lx_read_rgb
      | "svo" -> run unit_ (BinLexer.lx_skip_value Tables.coq_L_OPEN)
      | "svi" ->
        let (o, l') = BinLexer.lx_read_id !l in
        l := l';
        (match o with
         | Bytes.Ok id -> run unit_ (BinLexer.lx_skip_value id)
         | _ -> emit (show_o id_ o))
      | "T" ->
        let go = ref true in
        while !go do
          let (o, l') = BinLexer.lx_next_token !l in
          l := l';
          emit (show_o (opt show_tok) o);
          (match o with Bytes.Ok (Some _) -> () | _ -> go := false)
        done
      | _ when starts_with "sv:" op -> run unit_ (BinLexer.lx_skip_value (n_of_string (after "sv:" op)))
      | _ when starts_with "by" op -> run hex_of_bytes (BinLexer.lx_read_bytes (nat_of_int (int_of_string (after "by" op))))
      | _ -> failwith "bad op") ops;
  if Stdlib.Buffer.length out = 0 then "-" else Stdlib.Buffer.contents out

(* reader op interpreter *)
let rdr_ops (s0 : BinReader.rstate) (ops : string list) : string =
  let s = ref s0 in
  let out = Stdlib.Buffer.create 256 in
  let emit x =
    if Stdlib.Buffer.length out > 0 then Stdlib.Buffer.add_char out ' ';
    Stdlib.Buffer.add_string out x;
    Stdlib.Buffer.add_char out '@';
    Stdlib.Buffer.add_string out (string_of_int (int_of_nat (BinReader.rdr_position !s))) in
  let run pr f = let (o, s') = f !s in s := s'; emit (show_o pr o) in
  let opt pr = function None -> "NONE" | Some x -> pr x in
  L.iter (fun op ->
      match op with
      | "n" -> run (opt show_tok) BinReader.rdr_next
      | "r" -> run show_tok BinReader.rdr_read
      | "k" -> run (fun () -> "OK") BinReader.rdr_skip_container
      | "T" ->
        let go = ref true in
        while !go do
          let (o, s') = BinReader.rdr_next !s in
          s := s';
          emit (show_o (opt show_tok) o);
          (match o with Bytes.Ok (Some _) -> () | _ -> go := false)
        done
      | _ when starts_with "by" op -> run hex_of_bytes (BinReader.rdr_read_bytes (nat_of_int (int_of_string (after "by" op))))
      | _ -> failwith "bad op") ops;
  if Stdlib.Buffer.length out = 0 then "-" else Stdlib.Buffer.contents out

let split_ops s = if s = "-" || s = "" then [] else S.split_on_char ',' s

let () =
  register "bl.lex" (function [h] -> show_run (BinLexer.run_lexer (bytes_of_hex h)) | _ -> "BADCASE");
  register "bl.stream" (function [h; cap; sch] ->
      show_run (BinReader.run_stream (nat_of_int (int_of_string cap)) (parse_sched sch) (bytes_of_hex h)) | _ -> "BADCASE");
  register "bl.rslice" (function [h] -> show_run (BinReader.run_slice_reader (bytes_of_hex h)) | _ -> "BADCASE");
  register "bl.write" (function [ts] ->
      let toks = if ts = "-" then [] else L.map parse_tok (S.split_on_char ' ' ts) in
      hex_of_bytes (L.concat (L.map BinPrim.write_token toks)) | _ -> "BADCASE");
  register "bl.isid" (function [x] -> string_of_bool (BinPrim.is_id (n_of_string x)) | _ -> "BADCASE");
  register "bl.lops" (function [h; ops] -> lex_ops (bytes_of_hex h) (split_ops ops) | _ -> "BADCASE");
  register "bl.rops" (function [h; cap; sch; ops] ->
      rdr_ops (BinReader.rdr_new (nat_of_int (int_of_string cap)) (parse_sched sch) (bytes_of_hex h)) (split_ops ops) | _ -> "BADCASE");
  register "bl.rsops" (function [h; ops] -> rdr_ops (BinReader.rdr_from_slice (bytes_of_hex h)) (split_ops ops) | _ -> "BADCASE")

(* >>> a_c08 (wave 4): exhaustive id sweep, reader construction modes, bounded writer *)
let all_ids () : string =
  let notid = ref [] and lexid = ref 0 and wr = ref 0 and agree = ref 0 in
  let pad = bytes_of_hex "01000000000000000000" in
  for x = 0 to 65535 do
    let xn = n_of_int x in
    let isid = BinPrim.is_id xn in
    if not isid then notid := string_of_int x :: !notid;
    let le = [byte_tab.(x land 255); byte_tab.(x lsr 8)] in
    let (o, l') = BinLexer.lx_read_token (BinLexer.lx_new (le @ pad)) in
    let as_id = (match o with Bytes.Ok (BinPrim.BId y) -> int_of_n y = x | _ -> false) && int_of_nat (BinLexer.lx_position l') = 2 in
    if as_id then incr lexid;
    if as_id = isid then incr agree;
    if BinPrim.write_token (BinPrim.BId xn) = le then incr wr
  done;
  Printf.sprintf "notid:%s|lexid:%d|wr:%d|agree:%d" (S.concat "," (L.rev !notid)) !lexid !wr !agree

let rec take n l = if n <= 0 then [] else match l with [] -> [] | x :: r -> x :: take (n - 1) r

let write_limited (toks : BinPrim.btoken list) (lim : int) : string =
  let rec go toks n_ok acc used =
    match toks with
    | [] -> Printf.sprintf "OK:%d:%s" n_ok (hex_of_bytes (L.concat (L.rev acc)))
    | t :: r ->
      let b = BinPrim.write_token t in
      let k = L.length b in
      if used + k <= lim then go r (n_ok + 1) (b :: acc) (used + k)
      else Printf.sprintf "ERR:%d:%s" n_ok (hex_of_bytes (L.concat (L.rev (take (lim - used) b :: acc))))
  in
  go toks 0 [] 0

let () =
  register "bl.allids" (function [] -> all_ids () | _ -> "BADCASE");
  register "bl.mk" (function [mode; h; cap; sch; _h2; _n2] ->
      let c = if mode = "new" then 32768 else int_of_string cap in
      show_run (BinReader.run_stream (nat_of_int c) (parse_sched sch) (bytes_of_hex h)) ^ Printf.sprintf " buf=%d inner=1" c
    | _ -> "BADCASE");
  register "bl.writelim" (function [ts; lim] ->
      let toks = if ts = "-" then [] else L.map parse_tok (S.split_on_char ' ' ts) in
      write_limited toks (int_of_string lim) | _ -> "BADCASE")
(* <<< a_c08 *)

(* >>> a_c08 (wave 4): call mixes through the extracted BinOps.reader_ops / lexer_ops *)
let parse_bop (s : string) : BinOps.bop =
  match s with
  | "n" -> BinOps.OpNext
  | "r" | "t" -> BinOps.OpRead
  | _ when starts_with "by" s -> BinOps.OpBytes (nat_of_int (int_of_string (after "by" s)))
  | _ -> failwith "bad op"

let show_bres (r : BinOps.bres) : string =
  let opt pr = function None -> "NONE" | Some x -> pr x in
  match r with
  | BinOps.RNext o -> show_o (opt show_tok) o
  | BinOps.RRead o -> show_o show_tok o
  | BinOps.RBytes o -> show_o hex_of_bytes o

let show_opsrun (l : (BinOps.bres * Datatypes.nat) list) : string =
  if l = [] then "-" else S.concat " " (L.map (fun (r, p) -> show_bres r ^ "@" ^ string_of_int (int_of_nat p)) l)

let () =
  register "bl.mrops" (function [h; cap; sch; ops] ->
      show_opsrun (BinOps.reader_ops (nat_of_int (int_of_string cap)) (parse_sched sch) (bytes_of_hex h) (L.map parse_bop (split_ops ops)))
    | _ -> "BADCASE");
  register "bl.mlops" (function [h; ops] ->
      show_opsrun (BinOps.lexer_ops (bytes_of_hex h) (L.map parse_bop (split_ops ops))) | _ -> "BADCASE")
(* <<< a_c08 *)

(* >>> a_c08: error accessors (class only; offsets/messages are not canonical) *)
let () =
  register "bl.errapi" (function [h] ->
      let (_, (e, _)) = BinLexer.run_lexer (bytes_of_hex h) in
      let x = (match e with Bytes.Ok () -> "END" | Bytes.Err c -> "ERR:" ^ string_of_n c ^ ":1" | _ -> crash_tag) in
      x ^ " " ^ x
    | _ -> "BADCASE")
(* <<< a_c08 *)

(* >>> s_c08 (wave 6): size ladders.  A sink that takes short writes receives the same bytes (write_all contract: the
   sink is outside the model); a buffer recycled through into_parts starts every reader from the same model state *)
let () =
  register "bl.writechunk" (function [ts; _sizes; _vec] ->
      let toks = if ts = "-" then [] else L.map parse_tok (S.split_on_char ' ' ts) in
      hex_of_bytes (L.concat (L.map BinPrim.write_token toks)) | _ -> "BADCASE");
  register "bl.reuse" (function [h; cap; sch; rounds] ->
      let c = int_of_string cap and r = int_of_string rounds in
      if r <= 0 then Printf.sprintf "- same=0/0 buf=%d" c
      else show_run (BinReader.run_stream (nat_of_int c) (parse_sched sch) (bytes_of_hex h)) ^ Printf.sprintf " same=%d/%d buf=%d" (r - 1) (r - 1) c
    | _ -> "BADCASE")
(* <<< s_c08 *)
