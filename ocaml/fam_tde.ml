(* text serde walks (C02 stream walk_model): the extracted TextDeTape / TextDeStream models.
   de.model.text <path> <enc> <shape> <hex> <aux>
     path = slice | tape | objreader[@k]        aux = canonical tape   (`tt.parse` payload, ocaml/ttglue.ml)
          | reader:.. | freader:..              aux = reader tokens    (`tr.slice` output: O C OP:n U:h Q:h .. END|ERR:n @pos)
     enc  = w1252 | utf8
     shape: the grammar of harness/src/fam_de.rs (parse_shape)
   output = the value printed like fam_de.rs show_value, or ERR:<class>, or PANIC.
   Untrusted glue: the float parameters of the model are instantiated here (Scalar::to_f64 with the
   extracted ScalarF64.to_f64_bits, the casts with the machine's). *)
open Glue

exception Crash

(* ------------------------------------------------------------------ shapes *)
let parse_shape (s : string) : SerdeShape.shape =
  let n = S.length s in
  let i = ref 0 in
  let peek () = if !i < n then s.[!i] else '\000' in
  let eat c = if peek () <> c then failwith ("shape syntax at " ^ string_of_int !i) else incr i in
  let word () =
    let st = !i in
    while !i < n && (match s.[!i] with 'a' .. 'z' | 'A' .. 'Z' | '0' .. '9' | '-' -> true | _ -> false) do incr i done;
    S.sub s st (!i - st) in
  let rec shape () : SerdeShape.shape =
    let w = word () in
    match w with
    | "str" -> SerdeShape.ShStr | "bool" -> SerdeShape.ShBool
    | "u8" -> SerdeShape.ShU (n_of_int 8) | "u16" -> SerdeShape.ShU (n_of_int 16)
    | "u32" -> SerdeShape.ShU (n_of_int 32) | "u64" -> SerdeShape.ShU (n_of_int 64)
    | "i8" -> SerdeShape.ShI (n_of_int 8) | "i16" -> SerdeShape.ShI (n_of_int 16)
    | "i32" -> SerdeShape.ShI (n_of_int 32) | "i64" -> SerdeShape.ShI (n_of_int 64)
    | "f32" -> SerdeShape.ShF32 | "f64" -> SerdeShape.ShF64
    | "date" -> SerdeShape.ShDate | "dh" -> SerdeShape.ShDateHour
    | "any" -> SerdeShape.ShAny | "ign" -> SerdeShape.ShIgn
    | "opt" | "seq" | "map" | "prop" ->
      eat '('; let x = shape () in eat ')';
      (match w with
       | "opt" -> SerdeShape.ShOpt x | "seq" -> SerdeShape.ShSeq x
       | "map" -> SerdeShape.ShMap x | _ -> SerdeShape.ShProp x)
    | "tup" ->
      eat '(';
      let v = ref [] in
      while peek () <> ')' do v := shape () :: !v; if peek () = ',' then incr i done;
      eat ')'; SerdeShape.ShTup (L.rev !v)
    | "enum" ->
      eat '(';
      let v = ref [] in
      while peek () <> ')' do v := bytes_of_hex (word ()) :: !v; if peek () = ',' then incr i done;
      eat ')'; SerdeShape.ShEnum (L.rev !v)
    | "struct" | "tstruct" ->
      eat '(';
      let v = ref [] in
      while peek () <> ')' do
        let name = bytes_of_hex (word ()) in
        let token = if peek () = '#' then (incr i; Some (n_of_int (int_of_string ("0x" ^ word ())))) else None in
        let mode = match peek () with
          | '*' -> incr i; SerdeShape.MCollect
          | '!' -> incr i; SerdeShape.MLast
          | _ -> SerdeShape.MOnce in
        eat ':';
        let sh = shape () in
        v := (((name, token), mode), sh) :: !v;
        if peek () = ',' then incr i
      done;
      eat ')'; SerdeShape.ShStruct (w = "tstruct", L.rev !v)
    | _ -> failwith ("shape word " ^ w) in
  let r = shape () in
  if !i <> n then failwith "shape: trailing input";
  r

(* ------------------------------------------------------------------ values *)
let hexw w (n : BinNums.coq_N) = let z = zt_of_n n in Z.format ("%0" ^ string_of_int w ^ "x") z

let rec show_value (b : Stdlib.Buffer.t) (v : SerdeShape.dval) : unit =
  let add = Stdlib.Buffer.add_string b in
  match v with
  | SerdeShape.DStr s -> add "(str "; add (hex_of_bytes s); add ")"
  | SerdeShape.DBytes s -> add "(bytes "; add (hex_of_bytes s); add ")"
  | SerdeShape.DBool x -> add (if x then "(bool 1)" else "(bool 0)")
  | SerdeShape.DU n -> add "(u "; add (string_of_n n); add ")"
  | SerdeShape.DI z -> add "(i "; add (string_of_z z); add ")"
  | SerdeShape.DF32 x -> add "(f32 "; add (hexw 8 x); add ")"
  | SerdeShape.DF64 x -> add "(f64 "; add (hexw 16 x); add ")"
  | SerdeShape.DDate (y, m, d, h) ->
    add (Printf.sprintf "(date %s %s %s %s)" (string_of_z y) (string_of_z m) (string_of_z d) (string_of_z h))
  | SerdeShape.DNone -> add "(none)"
  | SerdeShape.DSome x -> add "(some "; show_value b x; add ")"
  | SerdeShape.DUnit -> add "(unit)"
  | SerdeShape.DIgn -> add "(ign)"
  | SerdeShape.DSeq xs -> add "(seq"; L.iter (fun x -> add " "; show_value b x) xs; add ")"
  | SerdeShape.DMap xs ->
    add "(map"; L.iter (fun (k, x) -> add " ("; add (hex_of_bytes k); add " "; show_value b x; add ")") xs; add ")"
  | SerdeShape.DAMap xs ->
    add "(amap"; L.iter (fun (k, x) -> add " ("; show_value b k; add " "; show_value b x; add ")") xs; add ")"
  | SerdeShape.DStruct xs ->
    add "(struct"; L.iter (fun (k, x) -> add " ("; add (hex_of_bytes k); add " "; show_value b x; add ")") xs; add ")"
  | SerdeShape.DProp (op, x) -> add "(prop "; add (string_of_n op); add " "; show_value b x; add ")"
  | SerdeShape.DEnum s -> add "(enum "; add (hex_of_bytes s); add ")"

let class_name (e : BinNums.coq_N) : string =
  match int_of_n e with
  | 1 -> "de" | 2 -> "unktoken" | 3 -> "io" | 4 -> "eof" | 5 -> "syntax" | 6 -> "full"
  | 101 -> "dup" | 102 -> "missing" | _ -> "other"

let show_result (o : SerdeShape.dval Bytes.outcome) : string =
  match o with
  | Bytes.Ok v -> let b = Stdlib.Buffer.create 256 in show_value b v; Stdlib.Buffer.contents b
  | Bytes.Err e -> "ERR:" ^ class_name e
  | _ -> crash_tag

(* ------------------------------------------------------------------ parameters of the models *)
let decode_of (enc : string) : BinNums.coq_N list -> Utf8.cow =
  let f = if enc = "utf8" then Encoding.decode_utf8 else Encoding.decode_windows1252 in
  fun d -> match f d with Bytes.Ok c -> c | _ -> raise Crash

let parse_f64 (d : BinNums.coq_N list) : BinNums.coq_N Bytes.outcome =
  match ScalarF64.to_f64_bits d with
  | Bytes.Ok z -> Bytes.Ok (n_of_zt (zt_of_z z))
  | Bytes.Err e -> Bytes.Err e
  | Bytes.Panic s -> Bytes.Panic s
  | Bytes.OOB s -> Bytes.OOB s
  | Bytes.OutOfFuel -> Bytes.OutOfFuel

let two64 = Z.shift_left Z.one 64
let two32 = Z.shift_left Z.one 32
let i64_of_u (z : Z.t) : int64 = Z.to_int64 (if Z.geq z (Z.shift_left Z.one 63) then Z.sub z two64 else z)
let u_of_i64 (x : int64) : Z.t = let z = Z.of_int64 x in if Z.sign z < 0 then Z.add z two64 else z
let i32_of_u (z : Z.t) : int32 = Z.to_int32 (if Z.geq z (Z.shift_left Z.one 31) then Z.sub z two32 else z)
let u_of_i32 (x : int32) : Z.t = let z = Z.of_int32 x in if Z.sign z < 0 then Z.add z two32 else z
let f64_of_bits (n : BinNums.coq_N) : float = Int64.float_of_bits (i64_of_u (zt_of_n n))
let bits_of_f64 (x : float) : BinNums.coq_N = n_of_zt (u_of_i64 (Int64.bits_of_float x))
let bits_of_f32 (x : float) : BinNums.coq_N = n_of_zt (u_of_i32 (Int32.bits_of_float x))
let fops : SerdeShape.fops = {
  SerdeShape.f32_of_f64 = (fun b -> bits_of_f32 (f64_of_bits b));
  SerdeShape.f64_of_f32 = (fun b -> bits_of_f64 (Int32.float_of_bits (i32_of_u (zt_of_n b))));
  SerdeShape.f32_of_int = (fun z -> bits_of_f32 (Z.to_float (zt_of_z z)));
  SerdeShape.f64_of_int = (fun z -> bits_of_f64 (Z.to_float (zt_of_z z))) }

(* ------------------------------------------------------------------ reader tokens *)
let rtoks_of_string (s : string) : (TextReader.rtok list * BinNums.coq_N option) option =
  let items = L.filter (fun x -> x <> "") (S.split_on_char ' ' s) in
  let rec go acc = function
    | [] -> None
    | "END" :: _ -> Some (L.rev acc, None)
    | x :: rest ->
      (match S.split_on_char ':' x with
       | ["O"] -> go (TextReader.ROpen :: acc) rest
       | ["C"] -> go (TextReader.RClose :: acc) rest
       | ["OP"; c] -> go (TextReader.ROp (Ttglue.op_of_code (int_of_string c)) :: acc) rest
       | ["U"; h] -> go (TextReader.RUnq (bytes_of_hex h) :: acc) rest
       | ["Q"; h] -> go (TextReader.RQuo (bytes_of_hex h) :: acc) rest
       | ["ERR"; c] ->
         (* reader error classes of fam_textreader.rs: 100 io, 101 buffer full, 102 eof *)
         let e = match c with "100" -> 3 | "101" -> 6 | _ -> 4 in
         Some (L.rev acc, Some (n_of_int e))
       | _ -> None) in
  go [] items

let starts_with p s = S.length s >= S.length p && S.sub s 0 (S.length p) = p

let run path enc shape aux : string =
  let sh = parse_shape shape in
  let dec = decode_of enc in
  try
    if starts_with "reader:" path || starts_with "freader:" path then
      (match rtoks_of_string aux with
       | None -> "BADAUX"
       | Some r -> show_result (TextDeStream.deser_stream dec parse_f64 fops sh r))
    else if starts_with "objreader" path then begin
      let k = if S.length path > 10 then Some (nat_of_int (int_of_string (S.sub path 10 (S.length path - 10)))) else None in
      show_result (TextDeTape.deser_objreader dec parse_f64 fops sh (Ttglue.tape_of_string aux) k)
    end else
      show_result (TextDeTape.deser_tape dec parse_f64 fops sh (Ttglue.tape_of_string aux))
  with Crash -> crash_tag

let () =
  register "de.model.text" (function [path; enc; shape; _; aux] -> run path enc shape aux | _ -> "BADCASE")

(* ------------------------------------------------------------------ [a_c02] the extended specification
   spec.text.value2 <tp> <enc> <shape> <tdoc>  (model only; props/C02_ext.py, stream ext_spec)
     -> ext=<b> sx=<b> | value (show_value syntax) | ERR:<class> (ERR:unfit = the specification does not fit)
   TextDeSpec2.spec_value2 tp on the TextDoc document (encoding of ocaml/fam_spec.ml): tp = 1 what the tape path
   yields (Props/C02_walk2.v C02_tape_path_ext_partial), tp = 0 the part the stream path shares (Props/C02_ext.v). *)
let show_result2 (o : SerdeShape.dval Bytes.outcome) : string =
  match o with
  | Bytes.Err e when int_of_n e = 900 -> "ERR:unfit"
  | _ -> show_result o

let () =
  register "spec.text.value2" (function [tp; enc; shape; d] ->
      let doc = Fam_spec.parse_doc d in
      let b01 b = if b then "1" else "0" in
      (try
         Printf.sprintf "ext=%s sx=%s | %s" (b01 (TextDeSpec2.ext_fields doc)) (b01 (TextDeSpec2.sx_fields doc))
           (show_result2 (TextDeSpec2.spec_value2 (tp = "1") (decode_of enc) parse_f64 fops (parse_shape shape) doc))
       with Crash -> crash_tag)
                                       | _ -> "BADCASE")

(* ------------------------------------------------------------------ [a_c02] one value visit under an arbitrary hint
   de.hint.model <cls> <enc> <hint> <hex> <aux>     cls = tape (aux = canonical tape) | stream (aux = reader tokens)
   The DESERIALIZER side of the models for the field `v` of the document: TextDeTape.tape_visit /
   TextDeStream.stream_visit under the hint -- including the hints no runtime shape issues (char, str, bytes,
   byte_buf, unit, unit_struct, newtype_struct, tuple_struct, i128, u128, identifier).  Output: the primitive visit
   with its payload, or the kind of compound visit: (some) (newtype) (seq) (map) (enum) (unit); ERR:<class>.
   i128 / u128 on the stream path: TextReaderTokenDeserializer has no such method, serde's default refuses: ERR:de. *)
let thint_of_name (tape : bool) (h : string) : TextDeCommon.thint option =
  match h with
  | "any" -> Some TextDeCommon.THAny | "bool" -> Some TextDeCommon.THBool
  | "i8" | "i16" | "i32" | "i64" -> Some TextDeCommon.THI64
  | "i128" -> if tape then Some TextDeCommon.THI64 else None
  | "u8" | "u16" | "u32" | "u64" -> Some TextDeCommon.THU64
  | "u128" -> if tape then Some TextDeCommon.THU64 else None
  | "f32" | "f64" -> Some TextDeCommon.THF64
  | "char" -> Some (if tape then TextDeCommon.THStr else TextDeCommon.THAny)
  | "str" | "identifier" -> Some TextDeCommon.THStr
  | "string" -> Some TextDeCommon.THString
  | "bytes" | "byte_buf" -> Some TextDeCommon.THBytes
  | "option" -> Some TextDeCommon.THOption
  | "unit" | "unit_struct" -> Some TextDeCommon.THUnit
  | "newtype_struct" -> Some TextDeCommon.THNewtype
  | "seq" | "tuple" | "tuple_struct" -> Some TextDeCommon.THSeq
  | "map" -> Some TextDeCommon.THMap
  | "struct" -> Some (TextDeCommon.THStruct false)
  | "enum" -> Some TextDeCommon.THEnum
  | "ignored_any" -> Some TextDeCommon.THIgnored
  | _ -> failwith ("hint " ^ h)

let show_tprim (p : TextDeCommon.tprim) : string =
  match p with
  | TextDeCommon.TPBool b -> if b then "(bool 1)" else "(bool 0)"
  | TextDeCommon.TPI64 z -> "(i64 " ^ string_of_z z ^ ")"
  | TextDeCommon.TPU64 n -> "(u64 " ^ string_of_n n ^ ")"
  | TextDeCommon.TPF64 b -> "(f64 " ^ hexw 16 b ^ ")"
  | TextDeCommon.TPStr (_, s) -> "(str " ^ hex_of_bytes s ^ ")"
  | TextDeCommon.TPBytes s -> "(bytes " ^ hex_of_bytes s ^ ")"
  | TextDeCommon.TPUnit -> "(unit)"

let key_v = bytes_of_hex "76"

let hint_tape dec (h : TextDeCommon.thint) (t : TextTok.ttok list) : string =
  let en = nat_of_int (L.length t) in
  let rec find ti n =
    if n = 0 then None else
    match TextDeTape.fields_next t ti en with
    | Bytes.Ok (Some (((key, op), vi), ti')) -> if key = key_v then Some (op, vi) else find ti' (n - 1)
    | _ -> None in
  match find (nat_of_int 0) (L.length t + 1) with
  | None -> "NOFIELD"
  | Some (op, vi) ->
    let o = match op with Some o -> o | None -> TextTok.Equal in
    (match TextDeTape.tape_visit dec parse_f64 t h (TextDeTape.KOpVal (o, vi)) with
     | Bytes.Ok (TextDeTape.TVPrim p) -> show_tprim p
     | Bytes.Ok (TextDeTape.TVSome _) -> "(some)"
     | Bytes.Ok (TextDeTape.TVNewtype _) -> "(newtype)"
     | Bytes.Ok (TextDeTape.TVSeq _) -> "(seq)"
     | Bytes.Ok (TextDeTape.TVMap _) -> "(map)"
     | Bytes.Ok (TextDeTape.TVPropMap _) -> "(propmap)"
     | Bytes.Ok (TextDeTape.TVEnum _) -> "(enum)"
     | Bytes.Err e -> "ERR:" ^ class_name e
     | _ -> crash_tag)

let hint_stream dec (h : TextDeCommon.thint) (toks : TextReader.rtok list) : string =
  let skip_value = function
    | TextReader.ROpen :: r ->
      let rec go d r = (match r with
          | [] -> []
          | TextReader.ROpen :: r' -> go (d + 1) r'
          | TextReader.RClose :: r' -> if d = 0 then r' else go (d - 1) r'
          | _ :: r' -> go d r') in
      go 0 r
    | _ :: r -> r
    | [] -> [] in
  let rec find = function
    | [] -> None
    | key :: rest ->
      let rest' = (match rest with TextReader.ROp _ :: r -> r | r -> r) in
      (match key, rest' with
       | TextReader.RUnq k, v :: _ when k = key_v -> Some v
       | _, _ -> find (skip_value rest')) in
  match find toks with
  | None -> "NOFIELD"
  | Some tk ->
    (match TextDeStream.stream_visit dec parse_f64 h tk with
     | Bytes.Ok (TextDeStream.SVPrim p) -> show_tprim p
     | Bytes.Ok TextDeStream.SVSome -> "(some)"
     | Bytes.Ok TextDeStream.SVNewtype -> "(newtype)"
     | Bytes.Ok (TextDeStream.SVSeq _) -> "(seq)"
     | Bytes.Ok TextDeStream.SVMap -> "(map)"
     | Bytes.Ok TextDeStream.SVPropMap -> "(propmap)"
     | Bytes.Ok TextDeStream.SVEnum -> "(enum)"
     | Bytes.Ok TextDeStream.SVSkipUnit -> "(unit)"
     | Bytes.Err e -> "ERR:" ^ class_name e
     | _ -> crash_tag)

let () =
  register "de.hint.model" (function [cls; enc; hint; _; aux] ->
      let dec = decode_of enc in
      (try
         match thint_of_name (cls = "tape") hint with
         | None -> "ERR:de"
         | Some h ->
           if cls = "tape" then hint_tape dec h (Ttglue.tape_of_string aux)
           else (match rtoks_of_string aux with
               | None -> "BADAUX"
               | Some (toks, _) -> hint_stream dec h toks)
       with Crash -> crash_tag)
                                    | _ -> "BADCASE")

(* ------------------------------------------------------------------ [w_c02, wave 5] enums with data-carrying variants
   de.model.enum <path> <enc> <shape> <hex> <aux>   shape = struct(<hexname>*:denum(<hex>:u,<hex>:n:<shape>,<hex>:t:tup(..),<hex>:s:struct(..)))
       the extracted TextDeEnum.enum_root_tape (aux = canonical tape) / enum_root_stream (aux = reader tokens)
   spec.text.enum <enc> <shape> <tdoc>               TextDeEnum.spec_enum_fields on the TextDoc document
   output: (struct (<hexname> (seq (variant <hex> <payload>) ..))) | ERR:<class> (ERR:unfit: the specification does not fit) *)
let parse_enum_root (s : string) : (BinNums.coq_N list * TextDeEnum.variants) =
  (* struct(<hex>*:denum( ... )) : split by hand, the payload shapes go through parse_shape *)
  let n = S.length s in
  let pre = "struct(" in
  if not (starts_with pre s) || s.[n - 1] <> ')' then failwith "enum root shape";
  let body = S.sub s 7 (n - 8) in
  let star = S.index body '*' in
  let name = bytes_of_hex (S.sub body 0 star) in
  let rest = S.sub body (star + 1) (S.length body - star - 1) in
  if not (starts_with ":denum(" rest) || rest.[S.length rest - 1] <> ')' then failwith "enum root shape (denum)";
  let inner = S.sub rest 7 (S.length rest - 8) in
  (* split at top-level commas *)
  let parts = ref [] and depth = ref 0 and st = ref 0 in
  S.iteri (fun i c ->
      if c = '(' then incr depth
      else if c = ')' then decr depth
      else if c = ',' && !depth = 0 then (parts := S.sub inner !st (i - !st) :: !parts; st := i + 1)) inner;
  if S.length inner > !st then parts := S.sub inner !st (S.length inner - !st) :: !parts;
  let variant (p : string) =
    let c1 = S.index p ':' in
    let nm = bytes_of_hex (S.sub p 0 c1) in
    let k = p.[c1 + 1] in
    let arg () = S.sub p (c1 + 3) (S.length p - c1 - 3) in
    let v = match k with
      | 'u' -> TextDeEnum.VSUnit
      | 'n' -> TextDeEnum.VSNewtype (parse_shape (arg ()))
      | 't' -> (match parse_shape (arg ()) with SerdeShape.ShTup ss -> TextDeEnum.VSTuple ss | _ -> failwith "tuple variant")
      | 's' -> (match parse_shape (arg ()) with SerdeShape.ShStruct (_, fs) -> TextDeEnum.VSStruct fs | _ -> failwith "struct variant")
      | _ -> failwith "variant kind" in
    (nm, v) in
  (name, L.rev_map variant !parts)

let show_enum_result (name : BinNums.coq_N list) (o : (BinNums.coq_N list * SerdeShape.dval) list Bytes.outcome) : string =
  match o with
  | Bytes.Ok l ->
    let b = Stdlib.Buffer.create 256 in
    let add = Stdlib.Buffer.add_string b in
    add "(struct ("; add (hex_of_bytes name); add " (seq";
    L.iter (fun (n, p) -> add " (variant "; add (hex_of_bytes n); add " "; show_value b p; add ")") l;
    add ")))";
    Stdlib.Buffer.contents b
  | Bytes.Err e when int_of_n e = 900 -> "ERR:unfit"
  | Bytes.Err e -> "ERR:" ^ class_name e
  | _ -> crash_tag

let () =
  register "de.model.enum" (function [path; enc; shape; _; aux] ->
      let (name, vs) = parse_enum_root shape in
      let dec = decode_of enc in
      (try
         if starts_with "reader:" path || starts_with "freader:" path then
           (match rtoks_of_string aux with
            | None -> "BADAUX"
            | Some r -> show_enum_result name (TextDeEnum.enum_root_stream dec parse_f64 fops name vs r))
         else show_enum_result name (TextDeEnum.enum_root_tape dec parse_f64 fops name vs (Ttglue.tape_of_string aux))
       with Crash -> crash_tag)
                                    | _ -> "BADCASE");
  register "spec.text.enum" (function [enc; shape; d] ->
      let (name, vs) = parse_enum_root shape in
      let doc = Fam_spec.parse_doc d in
      (try show_enum_result name (TextDeEnum.spec_enum_fields (decode_of enc) parse_f64 fops name vs doc)
       with Crash -> crash_tag)
                                     | _ -> "BADCASE")

(* ------------------------------------------------------------------ [w_c02, wave 5] typed map keys, size hints
   de.model.kmap <path> <enc> kmap(<key shape>,<value shape>) <hex> <aux>
       the extracted TextDeKeys.kmap_root_tape (aux = canonical tape) / kmap_root_stream (aux = reader tokens)
   de.model.hints <path> <enc> <shape> <hex> <aux>     tape paths only; shape = struct(76:hseq(S)) | struct(76:hmap(S)) | hmap(S)
       the size hints TextDeKeys.seq_hints / map_hints of the access the field `v` (resp. the root) is visited with, and
       the value TextDeTape.de gives for seq(S) / map(S); printed like fam_de.rs Value::Hint *)
let split_kmap (s : string) : string * string =
  let n = S.length s in
  if not (starts_with "kmap(" s) || s.[n - 1] <> ')' then failwith "kmap shape";
  let inner = S.sub s 5 (n - 6) in
  let depth = ref 0 and cut = ref (-1) in
  S.iteri (fun i c ->
      if c = '(' then incr depth else if c = ')' then decr depth
      else if c = ',' && !depth = 0 && !cut < 0 then cut := i) inner;
  (S.sub inner 0 !cut, S.sub inner (!cut + 1) (S.length inner - !cut - 1))

let show_amap (o : (SerdeShape.dval * SerdeShape.dval) list Bytes.outcome) : string =
  match o with
  | Bytes.Ok l -> let b = Stdlib.Buffer.create 256 in show_value b (SerdeShape.DAMap l); Stdlib.Buffer.contents b
  | Bytes.Err e -> "ERR:" ^ class_name e
  | _ -> crash_tag

let hint_string (l : Datatypes.nat list) : string = S.concat "," (L.map (fun n -> string_of_int (int_of_nat n)) l)

let () =
  register "de.model.kmap" (function [path; enc; shape; _; aux] ->
      let (ks, vs) = split_kmap shape in
      let ksh = parse_shape ks and vsh = parse_shape vs in
      let dec = decode_of enc in
      (try
         if starts_with "reader:" path || starts_with "freader:" path then
           (match rtoks_of_string aux with
            | None -> "BADAUX"
            | Some r -> show_amap (TextDeKeys.kmap_root_stream dec parse_f64 fops ksh vsh r))
         else show_amap (TextDeKeys.kmap_root_tape dec parse_f64 fops ksh vsh (Ttglue.tape_of_string aux))
       with Crash -> crash_tag)
                                    | _ -> "BADCASE");
  register "de.model.hints" (function [_path; enc; shape; _; aux] ->
      let dec = decode_of enc in
      let t = Ttglue.tape_of_string aux in
      let len = nat_of_int (L.length t) in
      let fuel = nat_of_int (2 * L.length t + 64) in
      let with_hints (h : Datatypes.nat list Bytes.outcome) (v : SerdeShape.dval Bytes.outcome) (wrap : string -> string) =
        (match v, h with
         | Bytes.Ok x, Bytes.Ok hs ->
           let b = Stdlib.Buffer.create 256 in show_value b x;
           wrap ("(hint " ^ hint_string hs ^ " " ^ Stdlib.Buffer.contents b ^ ")")
         | Bytes.Ok _, _ -> crash_tag
         | _, _ -> show_result v) in
      (try
         if starts_with "hmap(" shape then begin
           let s = parse_shape (S.sub shape 5 (S.length shape - 6)) in
           with_hints (TextDeKeys.map_hints t fuel (nat_of_int 0) len)
             (TextDeTape.deser_tape dec parse_f64 fops (SerdeShape.ShMap s) t) (fun x -> x)
         end else begin
           let pre_s = "struct(76:hseq(" and pre_m = "struct(76:hmap(" in
           let is_seq = starts_with pre_s shape in
           if not (is_seq || starts_with pre_m shape) then failwith "hints shape";
           let s = parse_shape (S.sub shape 15 (S.length shape - 17)) in
           let rec find ti n =
             if n = 0 then None else
               match TextDeTape.fields_next t ti len with
               | Bytes.Ok (Some (((key, op), vi), ti')) -> if key = key_v then Some (op, vi) else find ti' (n - 1)
               | _ -> None in
           match find (nat_of_int 0) (L.length t + 1) with
           | None -> "NOFIELD"
           | Some (op, vi) ->
             let o = match op with Some o -> o | None -> TextTok.Equal in
             let k = TextDeTape.KOpVal (o, vi) in
             let wrap x = "(struct (76 " ^ x ^ "))" in
             if is_seq then
               (match TextDeTape.tape_visit dec parse_f64 t TextDeCommon.THSeq k with
                | Bytes.Ok (TextDeTape.TVSeq (st, en)) ->
                  with_hints (TextDeKeys.seq_hints t fuel st en) (TextDeTape.de dec parse_f64 fops t fuel (SerdeShape.ShSeq s) k) wrap
                | _ -> show_result (TextDeTape.de dec parse_f64 fops t fuel (SerdeShape.ShSeq s) k))
             else
               (match TextDeTape.tape_visit dec parse_f64 t TextDeCommon.THMap k with
                | Bytes.Ok (TextDeTape.TVMap (st, en)) ->
                  with_hints (TextDeKeys.map_hints t fuel st en) (TextDeTape.de dec parse_f64 fops t fuel (SerdeShape.ShMap s) k) wrap
                | _ -> show_result (TextDeTape.de dec parse_f64 fops t fuel (SerdeShape.ShMap s) k))
         end
       with Crash -> crash_tag)
                                     | _ -> "BADCASE")
