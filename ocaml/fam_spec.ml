(* The Coq specification side of C01 (TextDoc.v), run on the documents the Python generator emits:
   ties props/textdoc.py (flatten / render / generator restrictions) to TextDoc.flatten / render / wf_doc. *)
open Glue

let parse_doc (s : string) : TextDoc.fields =
  let a = Array.of_list (Stdlib.String.split_on_char ' ' s) in
  let i = ref 0 in
  let next () = let x = a.(!i) in incr i; x in
  let op_of s = if s = "-" then None else Some (Ttglue.op_of_code (int_of_string s)) in
  let kind s = if s = "Q" then TextDoc.Quo else TextDoc.Unq in
  let rec value () : TextDoc.value =
    match next () with
    | "S" -> let k = kind (next ()) in let b = bytes_of_hex (next ()) in TextDoc.VScalar (k, b)
    | "O" -> let n = int_of_string (next ()) in let fs = fields n in
      let m = int_of_string (next ()) in let tl = values m in TextDoc.VObject (fs, tl)
    | "A" -> let n = int_of_string (next ()) in TextDoc.VArray (values n)
    | "K" -> let n = int_of_string (next ()) in let items = values n in
      let m = int_of_string (next ()) in let kv = fields m in TextDoc.VArrayKv (items, kv)
    | "H" -> let name = bytes_of_hex (next ()) in let v = value () in TextDoc.VHeader (name, v)
    | x -> failwith ("bad value tag " ^ x)
  and field () : TextDoc.field =
    match next () with
    | "F" -> let k = kind (next ()) in let key = bytes_of_hex (next ()) in let op = op_of (next ()) in
      let v = value () in TextDoc.Field (k, key, op, v)
    | "PV" -> let name = bytes_of_hex (next ()) in let u = next () = "1" in let s = bytes_of_hex (next ()) in TextDoc.ParamV (name, u, s)
    | "PO" -> let name = bytes_of_hex (next ()) in let u = next () = "1" in let n = int_of_string (next ()) in
      TextDoc.ParamO (name, u, fields n)
    | x -> failwith ("bad field tag " ^ x)
  and fields n : TextDoc.fields = if n = 0 then TextDoc.FNil else let f = field () in TextDoc.FCons (f, fields (n - 1))
  and values n : TextDoc.values = if n = 0 then TextDoc.VNil else let v = value () in TextDoc.VCons (v, values (n - 1)) in
  let n = int_of_string (next ()) in
  fields n

let () =
  (* spec.doc <doc> : wf_doc and the expected tape *)
  register "spec.doc" (function [d] ->
      let doc = parse_doc d in
      (if TextDoc.wf_fields doc then "wf " else "NOTWF ") ^ Ttglue.string_of_tape (TextDoc.flatten doc) | _ -> "BADCASE");
  (* >>> w_c01 (wave 5): spec.docm <doc> : TextDocMixed.wfm_fields (wf_doc_mixed), whether the document lies beyond wf_doc, and the expected tape *)
  register "spec.docm" (function [d] ->
      let doc = parse_doc d in
      (if TextDocMixed.wfm_fields doc then "wfm " else "NOTWFM ") ^ (if TextDocMixed.beyond_wf_doc doc then "beyond " else "within ") ^
      Ttglue.string_of_tape (TextDoc.flatten doc) | _ -> "BADCASE");
  (* <<< w_c01 *)
  (* spec.render <doc> <bom> <gap,gap,...> : the rendering under the given gaps, and gap_ok of every gap *)
  register "spec.render" (function [d; bom; gaps] ->
      let doc = parse_doc d in
      let gl = Array.of_list (Stdlib.List.map bytes_of_hex (Stdlib.String.split_on_char ',' gaps)) in
      let g (n : Datatypes.nat) = let k = int_of_nat n in if k < Array.length gl then gl.(k) else [] in
      let ok = Array.for_all (fun x -> TextDoc.gap_okb x) gl in
      let l = { TextDoc.bom = (bom = "1"); TextDoc.gap = g } in
      (if ok then "gaps_ok " else "GAP_NOT_OK ") ^ hex_of_bytes (TextDoc.render doc l) | _ -> "BADCASE")
