(* Reads case lines "kind<TAB>arg<TAB>..." on stdin, prints one canonical line per case. *)
let () =
  let out = Stdlib.Buffer.create 65536 in
  (try
     while true do
       let line = input_line stdin in
       let res =
         match Stdlib.String.split_on_char '\t' line with
         | [] -> "BADCASE"
         | kind :: args ->
           (match Hashtbl.find_opt Glue.registry kind with
            | None -> "NOKIND"
            | Some f -> (try f args with
                | Stack_overflow -> "MODEL-EXN:stack"
                | e -> "MODEL-EXN:" ^ Printexc.to_string e))
       in
       Stdlib.Buffer.add_string out res;
       Stdlib.Buffer.add_char out '\n';
       if Stdlib.Buffer.length out > 60000 then begin
         print_string (Stdlib.Buffer.contents out); Stdlib.Buffer.clear out end
     done
   with End_of_file -> ());
  print_string (Stdlib.Buffer.contents out)
