(* C20 (wave 5, w_tdef): the extracted TextDeReader.deser_text_reader (the function Props/C20_textde.v is stated
   over): TextDeStream.sde_root over the byte-level streaming reader model under a schedule WITH Fail events.
     c20.tde       <path> <enc> <shape> <hex>   path = reader:<cap>:<sched>  (sched as fam_de.rs, unrolled by
                                                Fam_c20.de_sched)  ->  value | ERR:<class>      (= de.text)
     c20.tde.calls <path> <enc> <shape> <hex>   -> calls=<n> delivered=<n> ok   (read calls issued / bytes delivered
                                                when the run succeeds) | err *)
open Glue

module St = Stdlib.String
module Li = Stdlib.List

let parse path =
  match St.split_on_char ':' path with
  | ["reader"; cap; sched] -> Some (nat_of_int (int_of_string cap), sched)
  | _ -> None

let () =
  register "c20.tde" (function
      | [path; enc; shape; h] ->
        (match parse path with
         | Some (cap, sched) ->
           let sh = Fam_tde.parse_shape shape in
           let d = bytes_of_hex h in
           (try
              Fam_tde.show_result
                (TextDeReader.deser_text_reader (Fam_tde.decode_of enc) Fam_tde.parse_f64 Fam_tde.fops cap
                   (Fam_c20.de_sched sched (Li.length d)) sh d)
            with Fam_tde.Crash -> crash_tag)
         | None -> "BADCASE")
      | _ -> "BADCASE");
  register "c20.tde.calls" (function
      | [path; enc; shape; h] ->
        (match parse path with
         | Some (cap, sched) ->
           let sh = Fam_tde.parse_shape shape in
           let d = bytes_of_hex h in
           (try
              match TextDeReader.deser_text_reader_st (Fam_tde.decode_of enc) Fam_tde.parse_f64 Fam_tde.fops cap
                      (Fam_c20.de_sched sched (Li.length d)) sh d with
              | Bytes.Ok (_, r) ->
                Printf.sprintf "calls=%d delivered=%d ok" (int_of_nat (TextDeReader.reader_calls r))
                  (int_of_nat (BufWin.delivered r.TextReader.rrd))
              | Bytes.Err _ -> "err"
              | _ -> crash_tag
            with Fam_tde.Crash -> crash_tag)
         | None -> "BADCASE")
      | _ -> "BADCASE")
