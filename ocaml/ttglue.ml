(* Canonical text-tape token format shared by the tape / DOM / writer / JSON families:
   `U:<hex> Q:<hex> H:<hex> P:<hex> N:<hex> O:<end>:<m> A:<end>:<m> E:<i> M OP:<code>` ("-" = empty). *)
open Glue

let op_of_code (c : int) : TextTok.operator =
  match c with
  | 0 -> TextTok.LessThan | 1 -> TextTok.LessThanEqual | 2 -> TextTok.GreaterThan
  | 3 -> TextTok.GreaterThanEqual | 4 -> TextTok.NotEqual | 5 -> TextTok.Exact
  | 6 -> TextTok.Equal | _ -> TextTok.Exists

let tok_of_string (s : string) : TextTok.ttok =
  match Stdlib.String.split_on_char ':' s with
  | ["M"] -> TextTok.TMixedContainer
  | ["U"; h] -> TextTok.TUnquoted (bytes_of_hex h)
  | ["Q"; h] -> TextTok.TQuoted (bytes_of_hex h)
  | ["H"; h] -> TextTok.THeader (bytes_of_hex h)
  | ["P"; h] -> TextTok.TParameter (bytes_of_hex h)
  | ["N"; h] -> TextTok.TUndefinedParameter (bytes_of_hex h)
  | ["OP"; c] -> TextTok.TOperator (op_of_code (int_of_string c))
  | ["E"; i] -> TextTok.TEnd (nat_of_int (int_of_string i))
  | ["A"; e; m] -> TextTok.TArray (nat_of_int (int_of_string e), m = "1")
  | ["O"; e; m] -> TextTok.TObject (nat_of_int (int_of_string e), m = "1")
  | _ -> failwith ("bad token " ^ s)

let tape_of_string (s : string) : TextTok.ttok list =
  if s = "-" || s = "" then []
  else Stdlib.List.map tok_of_string (Stdlib.String.split_on_char ' ' s)

let string_of_tok (t : TextTok.ttok) : string =
  match t with
  | TextTok.TMixedContainer -> "M"
  | TextTok.TUnquoted b -> "U:" ^ hex_of_bytes b
  | TextTok.TQuoted b -> "Q:" ^ hex_of_bytes b
  | TextTok.THeader b -> "H:" ^ hex_of_bytes b
  | TextTok.TParameter b -> "P:" ^ hex_of_bytes b
  | TextTok.TUndefinedParameter b -> "N:" ^ hex_of_bytes b
  | TextTok.TOperator o -> "OP:" ^ string_of_n (TextTok.op_code o)
  | TextTok.TEnd i -> "E:" ^ string_of_int (int_of_nat i)
  | TextTok.TArray (e, m) -> Printf.sprintf "A:%d:%d" (int_of_nat e) (if m then 1 else 0)
  | TextTok.TObject (e, m) -> Printf.sprintf "O:%d:%d" (int_of_nat e) (if m then 1 else 0)

let string_of_tape (t : TextTok.ttok list) : string =
  if t = [] then "-" else Stdlib.String.concat " " (Stdlib.List.map string_of_tok t)
