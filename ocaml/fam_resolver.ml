(* token resolver family (C04): BasicTokenResolver::from_text_lines and TokenResolver::resolve
     de.resolver <resolver> <id>,<id>,...      (same arguments / output as harness/src/fam_de.rs)
       resolver = map:<id>=<hexname>,... | lines:<id>=<hexname>,... | rawlines:<hex of file>   ("-" = empty)
       output   = "<is_empty as 0/1> <hexname|none>,..."  or ERR:syntax / ERR:io
   map:      a HashMap built by successive inserts (association list, latest first)
   lines:    the harness renders "0x{:04x} {}\n" per pair and loads the text: Resolver.render_std + from_text_lines
   rawlines: the bytes are the file *)
open Glue

module St = Stdlib.String
module Li = Stdlib.List

let class_name (e : BinNums.coq_N) : string =
  if e = Resolver.coq_E_Io then "io" else if e = Resolver.coq_E_Syntax then "syntax" else "other"

let pairs (rest : string) : (BinNums.coq_N * BinNums.coq_N list) list =
  if rest = "-" || rest = "" then []
  else
    Li.map (fun kv ->
        let j = St.index kv '=' in
        (n_of_int (int_of_string ("0x" ^ St.sub kv 0 j)), bytes_of_hex (St.sub kv (j + 1) (St.length kv - j - 1))))
      (St.split_on_char ',' rest)

let load (spec : string) : Resolver.table Bytes.outcome =
  let i = St.index spec ':' in
  let kind = St.sub spec 0 i and rest = St.sub spec (i + 1) (St.length spec - i - 1) in
  match kind with
  | "map" -> Bytes.Ok (Li.rev (pairs rest))
  | "lines" -> Resolver.from_text_lines (Resolver.render_std (pairs rest))
  | "rawlines" -> Resolver.from_text_lines (bytes_of_hex rest)
  | _ -> failwith "resolver kind"

let () =
  register "de.resolver" (function
    | [res; ids] ->
      (match load res with
       | Bytes.Ok m ->
         let one id =
           match Resolver.resolve m (n_of_int (int_of_string ("0x" ^ id))) with
           | Some s -> hex_of_bytes s
           | None -> "none" in
         Printf.sprintf "%d %s" (if Resolver.is_empty m then 1 else 0) (St.concat "," (Li.map one (St.split_on_char ',' ids)))
       | Bytes.Err e -> "ERR:" ^ class_name e
       | _ -> crash_tag)
    | _ -> "BADCASE")
