(* text tape family: parser and scanners *)
open Glue

let show_parse (o : (TextTok.ttok list * bool) Bytes.outcome) : string =
  match o with
  | Bytes.Ok (t, bom) -> "ok " ^ (if bom then "1" else "0") ^ " " ^ Ttglue.string_of_tape t
  | Bytes.Err _ -> "ERR"
  | _ -> crash_tag


let pair_out (o : (BinNums.coq_N list * BinNums.coq_N list) Bytes.outcome) : string =
  match o with
  | Bytes.Ok (a, b) -> hex_of_bytes a ^ " " ^ hex_of_bytes b
  | Bytes.Err _ -> "ERR"
  | _ -> crash_tag

let () =
  register "tt.parse" (function [h] -> show_parse (TextTape.parse (bytes_of_hex h)) | _ -> "BADCASE");
  register "tt.parse_reuse" (function [_; h] -> show_parse (TextTape.parse (bytes_of_hex h)) | _ -> "BADCASE");
  register "tt.split" (function [h] -> pair_out (TextTape.split_at_scalar (bytes_of_hex h)) | _ -> "BADCASE");
  register "tt.split_fb" (function [h] ->
      let d = bytes_of_hex h in
      if d = [] then crash_tag else
      let i = TextTape.split_at_scalar_fallback_idx d in
      hex_of_bytes (List.firstn i d) ^ " " ^ hex_of_bytes (List.skipn i d) | _ -> "BADCASE");
  register "tt.quote" (function [h] -> pair_out (TextTape.parse_quote_scalar (bytes_of_hex h)) | _ -> "BADCASE");
  register "tt.quote_fb" (function [h] ->
      (match bytes_of_hex h with
       | [] -> crash_tag
       | _ :: hs -> (match TextTape.tq_scan hs Datatypes.O with
           | Some i -> hex_of_bytes (List.firstn i hs) ^ " " ^ hex_of_bytes (List.skipn (Datatypes.S i) hs)
           | None -> "ERR")) | _ -> "BADCASE")

(* >>> a_c06 (C06): the Coq checker TextTapeWf.tape_wfb alone on an arbitrary tape (canonical token format) *)
let () =
  register "tw.wfb" (function [s] -> if TextTapeWf.tape_wfb (Ttglue.tape_of_string s) then "y" else "n" | _ -> "BADCASE")
(* <<< a_c06 *)

(* >>> a_c01 (C01): a chain of parses into one tape = each document parsed on its own (the model has no tape argument) *)
let () =
  register "tt.chain" (fun docs ->
      Stdlib.String.concat " | " (Stdlib.List.map (fun h -> show_parse (TextTape.parse (bytes_of_hex h))) docs))

(* the cfg(not(target_arch = "x86_64")) scanners (TextTapeMore.v); the implementation side of these two
   kinds is the harness run under Miri for a non-x86-64 target (props/C01_more.py, stream nonx86) *)
let () =
  register "tt.quote8" (function [h] -> pair_out (TextTapeMore.parse_quote_scalar_swar (bytes_of_hex h)) | _ -> "BADCASE");
  register "tt.split_plain" (function [h] -> pair_out (TextTapeMore.split_at_scalar_plain (bytes_of_hex h)) | _ -> "BADCASE")

let op_name (o : TextTok.operator) : string =
  match o with
  | TextTok.LessThan -> "LESS_THAN" | TextTok.LessThanEqual -> "LESS_THAN_EQUAL" | TextTok.GreaterThan -> "GREATER_THAN"
  | TextTok.GreaterThanEqual -> "GREATER_THAN_EQUAL" | TextTok.NotEqual -> "NOT_EQUAL" | TextTok.Exact -> "EXACT"
  | TextTok.Equal -> "EQUAL" | TextTok.Exists -> "EXISTS"

let () =
  register "tt.ops" (function [h] ->
      (match TextTape.parse (bytes_of_hex h) with
       | Bytes.Ok (t, _) ->
         let v = Stdlib.List.filter_map (function
             | TextTok.TOperator o ->
               let sym = hex_of_bytes (TextTok.op_symbol o) in
               Some (Printf.sprintf "%s:%s:%s:%s" (string_of_n (TextTok.op_code o)) sym (op_name o) sym)
             | _ -> None) t in
         if v = [] then "ok -" else "ok " ^ Stdlib.String.concat " " v
       | Bytes.Err _ -> "ERR"
       | _ -> crash_tag) | _ -> "BADCASE")
(* <<< a_c01 *)
