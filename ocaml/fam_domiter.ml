(* DOM family, iterator half (C17, wave 4): same case kinds and canonical output as
   harness/src/fam_domiter.rs, computed by the extracted model DomIter (+ Dom). *)
open Glue
open Ttglue

let sj (l : string list) = Stdlib.String.concat ";" l
let si (n : Datatypes.nat) = string_of_int (int_of_nat n)

exception Crash
let ok (o : 'a Bytes.outcome) : 'a =
  match o with Bytes.Ok a -> a | _ -> raise Crash
let api (o : 'a Bytes.outcome) : 'a option =
  match o with Bytes.Ok a -> Some a | Bytes.Err _ -> None | _ -> raise Crash

let dbg = ref false

let op_str (o : TextTok.operator option) =
  match o with Some o -> string_of_n (TextTok.op_code o) | None -> "-"

let rem_str (rem : Dom.areader) (tl : Datatypes.nat) (n : Datatypes.nat) : string =
  let first = if int_of_nat n > 0 then si rem.Dom.a_start else "-" in
  Printf.sprintf "%s/%s/%s" (si tl) (si n) first

let object_iter (t : TextTok.ttok list) (r : Dom.oreader) : string =
  let fpts = ok (DomIter.fields_trace_all !dbg t r) in
  let fs = Stdlib.List.map (fun (p : DomIter.fpoint) ->
      Printf.sprintf "%s/%s" (si p.DomIter.fp_hint) (rem_str p.DomIter.fp_rem p.DomIter.fp_rem_tokens p.DomIter.fp_rem_len)) fpts in
  let gpts = ok (DomIter.groups_trace_all !dbg t r) in
  let gs = Stdlib.List.map (fun (p : DomIter.gpoint) ->
      let key = match p.DomIter.gp_group with Some g -> string_of_tok g.Dom.g_key | None -> "-" in
      Printf.sprintf "%s/%s/%s" key (si p.DomIter.gp_hint) (rem_str p.DomIter.gp_rem p.DomIter.gp_rem_tokens p.DomIter.gp_rem_len)) gpts in
  Printf.sprintf "F:%s|G:%s|z=1" (sj fs) (sj gs)

let array_iter (t : TextTok.ttok list) (r : Dom.areader) : string =
  let pts = ok (DomIter.values_trace_all t r) in
  let vs = Stdlib.List.map (fun (p : DomIter.vpoint) ->
      Printf.sprintf "%s/%s" (si p.DomIter.vp_lo) (match p.DomIter.vp_hi with Some h -> si h | None -> "-")) pts in
  Printf.sprintf "V:%s|z=1" (sj vs)

let hex_api (o : BinNums.coq_N list Bytes.outcome) : string =
  match api o with Some s -> hex_of_bytes s | None -> "E"

let leaf_str dec (t : TextTok.ttok list) (v : Datatypes.nat) : string =
  let lv = ok (DomIter.leaf_view_of dec t v) in
  let ob = match api lv.DomIter.lv_object with
    | Some r -> Printf.sprintf "o%s/%s" (si (ok (Dom.object_tokens_len r))) (si (ok (Dom.fields_len t r.Dom.o_start r.Dom.o_end)))
    | None -> "E" in
  let ar = match api lv.DomIter.lv_array with
    | Some r -> Printf.sprintf "a%s/%s" (si (ok (Dom.array_tokens_len r))) (si (ok (Dom.array_len t r)))
    | None -> "E" in
  let renum = Printf.sprintf "%s/%s" (hex_api (DomIter.reader_read_str dec t (DomIter.RValue v)))
      (hex_api (DomIter.reader_read_scalar t (DomIter.RValue v))) in
  Printf.sprintf "%s:%s:%s:%s:%s:%s:%s:%s" (si v) (string_of_tok lv.DomIter.lv_tok) (si lv.DomIter.lv_tokens)
    (hex_api lv.DomIter.lv_scalar) (hex_api lv.DomIter.lv_str) ob ar renum

let key_str dec (t : TextTok.ttok list) (k : TextTok.ttok) : string =
  Printf.sprintf "k%s/%s" (hex_api (DomIter.reader_read_str dec t (DomIter.RScalar k)))
    (hex_api (DomIter.reader_read_scalar t (DomIter.RScalar k)))

let leaves dec (t : TextTok.ttok list) (o : Dom.oreader option) (a : Dom.areader option) : string =
  let out = ref [] in
  let push s = out := s :: !out in
  (match o with
   | Some r ->
     (match api (DomIter.reader_read_str dec t (DomIter.RObject r)) with Some _ -> push "MISMATCH" | None -> ());
     let (fs, _) = ok (Dom.fields_all !dbg t r) in
     Stdlib.List.iter (fun (f : Dom.field) ->
         push (Printf.sprintf "%s%s=%s" (key_str dec t f.Dom.f_key) (op_str f.Dom.f_op) (leaf_str dec t f.Dom.f_val))) fs
   | None -> ());
  push "|";
  (match a with
   | Some r ->
     (match api (DomIter.reader_read_scalar t (DomIter.RArray r)) with Some _ -> push "MISMATCH" | None -> ());
     Stdlib.List.iter (fun v -> push (leaf_str dec t v)) (ok (Dom.values_all t r))
   | None -> ());
  Stdlib.String.concat " " (Stdlib.List.rev !out)

let run (kind : string) (utf8 : bool) (t : TextTok.ttok list) (idx : string) : string =
  let dec = Json.decode_of utf8 in
  let (o, a) =
    if idx = "top" then (Some (Dom.top_reader t), None)
    else begin
      let v = nat_of_int (int_of_string idx) in
      (api (Dom.read_object t v), api (Dom.read_array t v))
    end in
  if kind = "dom.leaf" then leaves dec t o a
  else
    Printf.sprintf "obj=%s arr=%s"
      (match o with Some r -> object_iter t r | None -> "E")
      (match a with Some r -> array_iter t r | None -> "E")

let guard f = try f () with Crash -> crash_tag

let () =
  register "dom.iter" (function [_; tape; enc; idx] -> guard (fun () -> run "dom.iter" (enc = "u") (tape_of_string tape) idx) | _ -> "BADCASE");
  register "dom.leaf" (function [_; tape; enc; idx] -> guard (fun () -> run "dom.leaf" (enc = "u") (tape_of_string tape) idx) | _ -> "BADCASE")
