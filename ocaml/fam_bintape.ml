(* binary tape family (C03, binary half of C06) *)
open Glue

let show_tok (t : BinTape.tok) : string =
  match t with
  | BinTape.TArray e -> "A:" ^ string_of_int (int_of_nat e)
  | BinTape.TObject e -> "O:" ^ string_of_int (int_of_nat e)
  | BinTape.TMixed -> "M"
  | BinTape.TEqual -> "EQ"
  | BinTape.TEnd i -> "E:" ^ string_of_int (int_of_nat i)
  | BinTape.TBool b -> if b then "B:1" else "B:0"
  | BinTape.TU32 x -> "U32:" ^ string_of_n x
  | BinTape.TU64 x -> "U64:" ^ string_of_n x
  | BinTape.TI64 x -> "I64:" ^ string_of_z x
  | BinTape.TI32 x -> "I32:" ^ string_of_z x
  | BinTape.TQuoted s -> "Q:" ^ hex_of_bytes s
  | BinTape.TUnquoted s -> "U:" ^ hex_of_bytes s
  | BinTape.TF32 x -> "F32:" ^ hex_of_bytes x
  | BinTape.TF64 x -> "F64:" ^ hex_of_bytes x
  | BinTape.TToken id -> "T:" ^ string_of_n id
  | BinTape.TRgb c ->
    Printf.sprintf "RGB:%s,%s,%s,%s" (string_of_n c.BinPrim.rgb_r) (string_of_n c.BinPrim.rgb_g) (string_of_n c.BinPrim.rgb_b)
      (match c.BinPrim.rgb_a with None -> "-" | Some a -> string_of_n a)

let show_res (o : BinTape.tape Bytes.outcome) : string =
  match o with
  | Bytes.Ok t -> S.concat " " ("OK" :: L.map show_tok t)
  | Bytes.Err _ -> "ERR"
  | _ -> crash_tag ^ ":" ^ show_crash o

let wf_flag (o : BinTape.tape Bytes.outcome) : string =
  match o with
  | Bytes.Ok t -> if BinTapeWf.tape_wfb t then "y" else "n"
  | _ -> "-"

let all (d : BinNums.coq_N list) : string =
  let o = BinTape.parse_opt d and r = BinTape.parse_ref d in
  Printf.sprintf "opt=%s | ref=%s | wf=%s%s" (show_res o) (show_res r) (wf_flag o) (wf_flag r)

let () =
  register "bt.all" (function [h] -> all (bytes_of_hex h) | _ -> "BADCASE");
  (* parse h2 into a tape that previously held the parse of h1: the model starts from clear() *)
  register "bt.reuse" (function [_; h] -> all (bytes_of_hex h) | _ -> "BADCASE");
  (* model only: the optimised parser with the I64 exclusion added at the three id-class tests *)
  register "bt.fixed" (function [h] -> show_res (BinTape.parse true true (bytes_of_hex h)) | _ -> "BADCASE")

(* >>> a_c06 (C06): the Coq checker alone on an arbitrary token shape: `A:<e>` `O:<e>` `E:<i>`, anything else a scalar *)
let tok_of_shape (s : string) : BinTape.tok =
  let num x = nat_of_int (int_of_string x) in
  match Stdlib.String.split_on_char ':' s with
  | ["A"; e] -> BinTape.TArray (num e)
  | ["O"; e] -> BinTape.TObject (num e)
  | ["E"; i] -> BinTape.TEnd (num i)
  | ["M"] -> BinTape.TMixed
  | ["EQ"] -> BinTape.TEqual
  | _ -> BinTape.TBool true

let () =
  register "bt.wfcheck" (function [s] ->
      let t = if s = "-" || s = "" then [] else Stdlib.List.map tok_of_shape (Stdlib.String.split_on_char ' ' s) in
      if BinTapeWf.tape_wfb t then "y" else "n" | _ -> "BADCASE")
(* <<< a_c06 *)

(* >>> a_c03: the mirror clause, run by the extracted deciders on the model's tapes *)
let mir_flags (d : BinNums.coq_N list) (o : BinTape.tape Bytes.outcome) : string =
  match o with
  | Bytes.Ok t ->
    (match BinTapeMirror.raw_lex d with
     | Some toks -> (if BinTapeMirror.mirrorb toks t then "y" else "n") ^ (if BinTapeMirror.submirrorb toks t then "y" else "n")
     | None -> "xx")
  | Bytes.Err _ -> "--"
  | _ -> crash_tag

let chain (hs : string) : string =
  let parts = S.split_on_char ';' hs in
  let last = L.nth parts (L.length parts - 1) in
  let n = L.length parts in
  let d = bytes_of_hex last in
  let o = show_res (BinTape.parse_opt d) and r = show_res (BinTape.parse_ref d) in
  (* the n-th parse (1-based) fills tape a with the optimised parser when n is odd *)
  let a, b = if n mod 2 = 1 then o, r else r, o in
  Printf.sprintf "a=%s | b=%s | fo=%s | fr=%s" a b o r

let () =
  register "bt.mir" (function [h] ->
      let d = bytes_of_hex h in
      Printf.sprintf "opt=%s ref=%s" (mir_flags d (BinTape.parse_opt d)) (mir_flags d (BinTape.parse_ref d))
    | _ -> "BADCASE");
  register "bt.chain" (function [hs] -> chain hs | _ -> "BADCASE")
(* <<< a_c03 *)

(* >>> s_c03 (wave 6): bt.mirl = bt.mir (the harness runs it on a large stack; the model needs none) *)
let () =
  register "bt.mirl" (function [h] ->
      let d = bytes_of_hex h in
      Printf.sprintf "opt=%s ref=%s" (mir_flags d (BinTape.parse_opt d)) (mir_flags d (BinTape.parse_ref d))
    | _ -> "BADCASE")
(* <<< s_c03 *)
