(* C05 (wave 4): `c05.w <ms> <kind> <args...>` is the harness's per-case watchdog wrapper; on the model
   side it is transparent: the wrapped kind is looked up in the registry and run.  Untrusted glue. *)
let () =
  Glue.register "c05.w" (function
    | _ms :: kind :: args ->
      (match Hashtbl.find_opt Glue.registry kind with
       | None -> "NOKIND"
       | Some f -> f args)
    | _ -> "BADCASE")
