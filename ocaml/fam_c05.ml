(* C05 (wave 4): `c05.w <ms> <kind> <args...>` is the harness's per-case watchdog wrapper; on the model
   side it is transparent: the wrapped kind is looked up in the registry and run.  Untrusted glue. *)
let () =
  Glue.register "c05.w" (function
    | _ms :: kind :: args ->
      (match Hashtbl.find_opt Glue.registry kind with
       | None -> "NOKIND"
       | Some f -> f args)
    | _ -> "BADCASE")

(* c05.npv <hex> <tape>: the executable side condition of the write_tape no-crash theorems
   (Props/C05_wtape.v) evaluated on the real parser's tape *)
let () =
  Glue.register "c05.npv" (function
    | [_; tape] -> if WriteTapeSide.no_param_valuesb (Ttglue.tape_of_string tape) then "1" else "0"
    | _ -> "BADCASE")
