(* Untrusted glue between case lines and the extracted model: conversions and a registry.
   A bug here can only cause a disagreement with the implementation, never hide one. *)
open BinNums

module S = Stdlib.String
module L = Stdlib.List

let rec z_of_pos (p : positive) : Z.t =
  match p with
  | Coq_xH -> Z.one
  | Coq_xO q -> Z.shift_left (z_of_pos q) 1
  | Coq_xI q -> Z.succ (Z.shift_left (z_of_pos q) 1)

let rec pos_of_z (z : Z.t) : positive =
  if Z.equal z Z.one then Coq_xH
  else if Z.testbit z 0 then Coq_xI (pos_of_z (Z.shift_right z 1))
  else Coq_xO (pos_of_z (Z.shift_right z 1))

let zt_of_n (n : coq_N) : Z.t = match n with N0 -> Z.zero | Npos p -> z_of_pos p
let n_of_zt (z : Z.t) : coq_N = if Z.sign z <= 0 then N0 else Npos (pos_of_z z)
let zt_of_z (z : coq_Z) : Z.t =
  match z with Z0 -> Z.zero | Zpos p -> z_of_pos p | Zneg p -> Z.neg (z_of_pos p)
let z_of_zt (z : Z.t) : coq_Z =
  if Z.sign z = 0 then Z0 else if Z.sign z > 0 then Zpos (pos_of_z z) else Zneg (pos_of_z (Z.neg z))

let n_of_int (i : int) : coq_N = n_of_zt (Z.of_int i)
let int_of_n (n : coq_N) : int = Z.to_int (zt_of_n n)
let z_of_int (i : int) : coq_Z = z_of_zt (Z.of_int i)
let n_of_string (s : string) : coq_N = n_of_zt (Z.of_string s)
let z_of_string (s : string) : coq_Z = z_of_zt (Z.of_string s)
let string_of_n (n : coq_N) : string = Z.to_string (zt_of_n n)
let string_of_z (z : coq_Z) : string = Z.to_string (zt_of_z z)

let rec nat_of_int (i : int) : Datatypes.nat = if i <= 0 then Datatypes.O else Datatypes.S (nat_of_int (i - 1))
let rec int_of_nat (n : Datatypes.nat) : int = match n with Datatypes.O -> 0 | Datatypes.S m -> 1 + int_of_nat m

(* small table of byte values so that bytes share structure *)
let byte_tab : coq_N array = Array.init 256 n_of_int

let hexval c =
  match c with
  | '0' .. '9' -> Char.code c - 48
  | 'a' .. 'f' -> Char.code c - 87
  | 'A' .. 'F' -> Char.code c - 55
  | _ -> failwith "bad hex"

(* "-" denotes the empty string *)
let bytes_of_hex (s : string) : coq_N list =
  if s = "-" || s = "" then []
  else begin
    let n = S.length s / 2 in
    let rec go i acc = if i < 0 then acc else go (i - 1) (byte_tab.(hexval s.[2 * i] * 16 + hexval s.[2 * i + 1]) :: acc) in
    go (n - 1) []
  end

let hex_of_bytes (l : coq_N list) : string =
  if l = [] then "-"
  else begin
    let b = Stdlib.Buffer.create 64 in
    L.iter (fun x -> Stdlib.Buffer.add_string b (Printf.sprintf "%02x" (int_of_n x))) l;
    Stdlib.Buffer.contents b
  end

let registry : (string, string list -> string) Hashtbl.t = Hashtbl.create 97
let register (kind : string) (f : string list -> string) = Hashtbl.replace registry kind f

let crash_tag = "PANIC"

(* print an outcome with a printer for the Ok payload; errors as ERR:<class> *)
let show_outcome (pr : 'a -> string) (o : 'a Bytes.outcome) : string =
  match o with
  | Bytes.Ok a -> pr a
  | Bytes.Err e -> "ERR:" ^ string_of_n e
  | Bytes.Panic _ | Bytes.OOB _ | Bytes.OutOfFuel -> crash_tag

let show_crash (o : 'a Bytes.outcome) : string =
  match o with
  | Bytes.Panic s -> "Panic@" ^ string_of_n s
  | Bytes.OOB s -> "OOB@" ^ string_of_n s
  | Bytes.OutOfFuel -> "OutOfFuel"
  | _ -> ""
